package sim

import (
	"fmt"
	"os"
	"path"
	"path/filepath"
	"sort"
	"strings"

	pongo2 "github.com/flosch/pongo2/v6"
)

// C11 - templates are composed only through the set's loaders, by the names written.
// DESIGN.md section 4 (C11). Single task; generated virtual file trees over 1..3
// simulated disks behind one kind of loader per set; per configuration every Get site
// is faulted singly (enumeration). The expected rendering comes from a small
// reference resolver/renderer written from the loaders' documented contracts.

type c11Ref struct {
	Type     string `json:"type"`   // "inc", "lazy", "ssi", "ssiraw", "import"
	Name     string `json:"name"`   // as written in the template
	Target   int    `json:"target"` // file index, -1: intentionally missing
	IfExists bool   `json:"if_exists,omitempty"`
	With     string `json:"with,omitempty"`
	With2    string `json:"with2,omitempty"`          // a second pair (wv2)
	With2Ref bool   `json:"with2_reads_wv,omitempty"` // ... written wv2=wv: it reads the includer's wv, not the first pair's
	WithSv   string `json:"with_sv,omitempty"`        // a pair named like the includer's own private variable sv
	Only     bool   `json:"only,omitempty"`
	// WithNil: the pair is written wv=nl - its value is nil. The pair still counts: the included
	// template sees an empty wv, not the includer's
	WithNil bool `json:"with_nil_value,omitempty"`
	// InnerSv: the include sits in a `with` block that binds sv again - the innermost binding
	// is the includer's variable at that point
	InnerSv string `json:"inner_sv,omitempty"`
	Dead    bool   `json:"never_executed,omitempty"` // lazy include under a false condition
	// AeOff: the include sits in an `autoescape off` block. That block belongs to the includer's
	// rendering; the included template is rendered as it always is - by literal and by computed name alike
	AeOff bool `json:"in_autoescape_off,omitempty"`
	// Var / GlobalName (lazy includes of the top-level file only): the name is the value of the
	// context variable Var; the set's Globals bind the same variable to GlobalName, another
	// name - the caller's context wins, and what counts is the value at run time
	Var        string `json:"name_variable,omitempty"`
	GlobalName string `json:"same_variable_in_globals,omitempty"`
}

type c11File struct {
	Path   string   `json:"path"`
	Kind   string   `json:"kind"` // "plain", "raw", "macros", "base", "child"
	Disks  []int    `json:"disks"`
	Refs   []c11Ref `json:"refs,omitempty"`   // body references (for base/child: inside the block)
	Parent int      `json:"parent,omitempty"` // child: index of the base file
	PName  string   `json:"parent_name,omitempty"`
}

type c11Spec struct {
	Kind    string    `json:"loader_kind"`
	NDisks  int       `json:"disks"`
	BaseDir string    `json:"basedir,omitempty"`
	OwnMiss bool      `json:"loader_reports_misses_with_its_own_error_type,omitempty"`
	Files   []c11File `json:"files"`
	Entry   string    `json:"entry"` // FromFile, FromCache, FromString, FromBytes, RenderTemplate{String,Bytes,File}
	// WarmUp: the set is used once with its first loader only; the others are added afterwards
	WarmUp bool `json:"loaders_added_after_first_use,omitempty"`
	// LateLoaders: the template is created while the set has its first loader only; the others
	// are added before it is executed. Names computed at run time are looked up in the set's
	// loaders as they are then.
	LateLoaders bool `json:"loaders_added_between_compile_and_execute,omitempty"`
	// TopTrim: the caller switches TrimBlocks on for the top template only, on the template
	// object; whatever that template pulls in - by literal or by computed name - keeps the set's options
	TopTrim bool   `json:"trimblocks_on_top_template_only,omitempty"`
	TopName string `json:"top_name"`
	Root    string `json:"-"` // local kinds: temp dir
}

type c11Checker struct{}

func init() { Register(c11Checker{}) }

func (c11Checker) ID() string { return "C11" }
func (c11Checker) ProbeNames() []string {
	return []string{"first_loader_wins_choice", "fell_through_to_later_loader", "if_exists_rendered_nothing", "missing_is_error",
		"lazy_never_executed_not_fetched", "only_scope", "dotdot_name", "rooted_name", "extends", "import", "ssi_plain", "ssi_parsed",
		"lazy_include", "read_eio_fired", "get_eio_fired", "read_short_fired", "local_loader_run", "canary_in_place"}
}
func (c11Checker) Meta() CheckerMeta {
	return CheckerMeta{
		Level: "fault_enumeration",
		Rule: "configurations are drawn by seed: 3..8 files in nested directories spread over 1..3 disks (same name on several disks with different markers), one loader kind per set (real FSLoader, HttpFilesystemLoader +/- baseDir, LocalFilesystemLoader +/- baseDir on a temp dir, two virtual kinds), an acyclic reference graph via include (static/lazy, with/only/if_exists), extends, import, ssi (plain/parsed) with relative, rooted and '..' names, entry through FromFile/FromCache/FromString/FromBytes/RenderTemplateString/RenderTemplateBytes/RenderTemplateFile; " +
			"per configuration a fault-free run is checked exactly, then EVERY distinct Get site (disk,path) is faulted singly with get_eio (persistent and transient), read_eio_at(0/mid/len-1) and read_short(1), plus sampled pairs; " +
			"evaluations = whole compile+execute operations; non-trivial = a fault fired or a later loader / if_exists / missing path was exercised; distinct = distinct (configuration, fault)",
		Real: []string{"pongo2 package (FromFile/FromCache/FromString, include/extends/import/ssi tags, resolveTemplate)", "pongo2.FSLoader", "pongo2.HttpFilesystemLoader", "pongo2.LocalFilesystemLoader (real temp dir, fault-free)", "io.ReadAll"},
		Stub: []string{"fs.FS and http.FileSystem contents (in-memory disks with fault plan)", "two virtual TemplateLoaders (root-based and directory-relative Abs)"},
		Assumptions: []string{
			"loader stacks are homogeneous (one kind per set) and every Abs is idempotent",
			"lazy relative names are generated only where the executing template is the lexically enclosing one",
			"under a read error on the first loader that has the name the operation is expected to fail (or render nothing under if_exists), not to fall through",
			"fetch order and whether later loaders are probed after a hit are not prescribed and not checked",
		},
		QuickRuns: 6000, QuickRace: 0,
	}
}

var c11Dirs = []string{"", "a/", "a/b/", "c/", "tplroot/"} // (the last one is spelled like the base directories in use)

var canaryDir string
var c11TreeSeq int

// ensureCanary puts real files named like the virtual ones (content CANARY) into a
// temp dir and makes it the working directory: anything that reads the OS file
// system by a relative name finds them.
func ensureCanary() error {
	if canaryDir != "" {
		return nil
	}
	base := os.Getenv("VERIF_DIR")
	if base == "" {
		base = "/verif"
	}
	// a fixed location (inside the git-ignored build directory) shared by all worker
	// processes: its name appears in generated templates, so it must not vary
	d := filepath.Join(base, ".build", "canary")
	for _, dir := range c11Dirs {
		for _, sub := range []string{"", "tplroot/"} {
			if err := os.MkdirAll(filepath.Join(d, sub, dir), 0o755); err != nil {
				return err
			}
			for i := 0; i < 17; i++ {
				for _, n := range []string{fmt.Sprintf("t%d.tpl", i), fmt.Sprintf("t%d.txt", i)} {
					fn := filepath.Join(d, sub, dir, n)
					if b, err := os.ReadFile(fn); err == nil && string(b) == "CANARY" {
						continue
					}
					tmp := fmt.Sprintf("%s.%d", fn, os.Getpid())
					if err := os.WriteFile(tmp, []byte("CANARY"), 0o644); err != nil {
						return err
					}
					if err := os.Rename(tmp, fn); err != nil {
						return err
					}
				}
			}
		}
	}
	if err := os.Chdir(d); err != nil {
		return err
	}
	canaryDir = d
	return nil
}

// CleanupCanary leaves the (shared, tiny) canary directory in place; it only steps out of it.
func CleanupCanary() {
	if canaryDir != "" {
		os.Chdir("/")
	}
}

func c11Relative(kind string) bool { return kind == "fs" || kind == "virtrel" || kind == "local" }

// c11Resolve is the reference resolver: what name a loader of this kind asks for
// when template `base` refers to `name` (documented contracts, written independently).
func c11Resolve(sp *c11Spec, base, name string) string {
	switch sp.Kind {
	case "fs":
		return normPath(path.Join(path.Dir(base), name))
	case "virtrel":
		if strings.HasPrefix(name, "/") {
			return normPath(name)
		}
		return normPath(path.Join(path.Dir(base), name))
	case "local":
		if strings.HasPrefix(name, "/") {
			return path.Clean(name)
		}
		return path.Join(path.Dir(base), name)
	case "localbase":
		if strings.HasPrefix(name, "/") {
			return path.Clean(name)
		}
		return path.Join(sp.Root, name)
	}
	return normPath(name) // http, httpbase, virt: from the loader's root
}

// c11WriteName writes a name for target path t as seen from source path s.
func c11WriteName(g *Tape, sp *c11Spec, s, t string, lazyRootedOnly bool) (string, string) {
	flavour := "plain"
	switch sp.Kind {
	case "fs":
		rel, _ := filepath.Rel("/"+path.Dir(s), "/"+t)
		if g.Draw(3) == 0 && path.Dir(s) != "." {
			// detour through the parent directory
			rel2, _ := filepath.Rel("/"+path.Dir(path.Dir(s)), "/"+t)
			return "../" + rel2, "dotdot"
		}
		if strings.HasPrefix(rel, "..") {
			flavour = "dotdot"
		}
		return rel, flavour
	case "virtrel":
		if lazyRootedOnly || g.Draw(3) == 0 {
			return "/" + t, "rooted"
		}
		rel, _ := filepath.Rel("/"+path.Dir(s), "/"+t)
		if strings.HasPrefix(rel, "..") {
			flavour = "dotdot"
		}
		return rel, flavour
	case "local":
		if lazyRootedOnly || g.Draw(3) == 0 {
			return t, "rooted" // t is already absolute for this kind
		}
		rel, _ := filepath.Rel(path.Dir(s), t)
		if strings.HasPrefix(rel, "..") {
			flavour = "dotdot"
		}
		return rel, flavour
	case "localbase":
		if g.Draw(4) == 0 {
			return path.Join(sp.Root, t), "rooted"
		}
		return t, "rooted"
	}
	// rooted kinds
	if g.Draw(4) == 0 {
		return "zz/../" + t, "dotdot"
	}
	return t, "rooted"
}

func c11Gen(tp *Tapes) *c11Spec {
	g := tp.Gen
	sp := &c11Spec{}
	kinds := []string{"fs", "fs", "http", "httpbase", "virt", "virtrel", "fs", "local", "localbase", "virtrel"}
	sp.Kind = kinds[g.Draw(len(kinds))]
	sp.NDisks = 1 + g.Draw(3)
	if sp.Kind == "local" || sp.Kind == "localbase" {
		sp.NDisks = 1
	}
	if sp.Kind == "httpbase" {
		sp.BaseDir = []string{"tplroot", "/tplroot"}[g.Draw(2)]
	}
	if sp.Kind == "virt" || sp.Kind == "virtrel" {
		sp.OwnMiss = g.Draw(2) == 1
	}
	n := 3 + g.DrawD(6, 14)
	kindsOf := make([]string, n)
	kindsOf[0] = "plain"
	for i := 1; i < n; i++ {
		switch g.Draw(9) {
		case 6:
			kindsOf[i] = "raw"
		case 7:
			kindsOf[i] = "macros"
		case 8:
			kindsOf[i] = "base"
		default:
			kindsOf[i] = "plain"
		}
	}
	for i := 0; i < n; i++ {
		ext := ".tpl"
		if kindsOf[i] == "raw" {
			ext = ".txt"
		}
		f := c11File{Path: c11Dirs[g.Draw(len(c11Dirs))] + fmt.Sprintf("t%d%s", i, ext), Kind: kindsOf[i]}
		// which disks hold it
		first := g.Draw(sp.NDisks)
		f.Disks = []int{first}
		for d := 0; d < sp.NDisks; d++ {
			if d != first && g.Draw(3) == 0 {
				f.Disks = append(f.Disks, d)
			}
		}
		sort.Ints(f.Disks)
		sp.Files = append(sp.Files, f)
	}
	sp.Entry = []string{"FromFile", "FromCache", "FromString", "FromBytes", "RenderTemplateString", "RenderTemplateBytes", "RenderTemplateFile"}[g.Draw(7)]
	if c11StringEntry(sp.Entry) && sp.Kind == "local" {
		// LocalFilesystemLoader resolves the names of a location-less template against
		// the process working directory: legitimate, but not a virtual tree
		sp.Entry = "FromFile"
	}
	sp.WarmUp = sp.NDisks > 1 && sp.Entry != "FromCache" && g.Draw(3) == 0
	if !sp.WarmUp && sp.NDisks > 1 && (sp.Entry == "FromFile" || sp.Entry == "FromString" || sp.Entry == "FromBytes") && g.Draw(3) == 0 {
		sp.LateLoaders = true
	}
	if c11StringEntry(sp.Entry) {
		// a string template has no location: keep the top file at the root so that
		// relative names mean the same thing
		sp.Files[0].Path = "t0.tpl"
	}
	return sp
}

// c11Ctx is the caller's context of every execution: pv, plus the variables that lazy
// includes of the top-level file take their names from.
func c11Ctx(sp *c11Spec) pongo2.Context {
	ctx := pongo2.Context{"pv": c11PV}
	for _, r := range sp.Files[0].Refs {
		if r.Var != "" {
			ctx[r.Var] = r.Name
		}
	}
	return ctx
}

// c11Globals: the set's Globals bind the same variables to other names.
func c11Globals(sp *c11Spec, set *pongo2.TemplateSet) {
	// the caller's pv shadows a global of the same name, for the includer and for what it includes
	set.Globals["pv"] = "GLOBAL-PV"
	for _, r := range sp.Files[0].Refs {
		if r.Var != "" {
			set.Globals[r.Var] = r.GlobalName
		}
	}
}

// c11StringEntry: entry points that compile a source text which has no name and no location.
func c11StringEntry(e string) bool {
	switch e {
	case "FromString", "FromBytes", "RenderTemplateString", "RenderTemplateBytes":
		return true
	}
	return false
}

// c11Finish draws the references (needs sp.Root for local kinds, hence separate).
func c11Finish(tp *Tapes, sp *c11Spec) {
	g := tp.Gen
	n := len(sp.Files)
	usedBase := map[int]bool{}
	existing := map[string]bool{}
	for _, of := range sp.Files {
		existing[normPath(of.Path)] = true
	}
	for i := 0; i < n; i++ {
		f := &sp.Files[i]
		if f.Kind == "raw" {
			continue
		}
		// the engine's name of this file: for relative kinds the normalised path
		self := c11SelfName(sp, f.Path)
		// become a child of a later base file?
		if f.Kind == "plain" && i > 0 || (i == 0 && g.Draw(3) == 0) {
			for j := i + 1; j < n; j++ {
				if sp.Files[j].Kind == "base" && !usedBase[j] && g.Draw(2) == 0 {
					f.Kind = "child"
					f.Parent = j
					f.PName, _ = c11WriteName(g, sp, self, c11TargetPath(sp, sp.Files[j].Path), false)
					usedBase[j] = true
					break
				}
			}
		}
		nrefs := g.Draw(4)
		if i == 0 && nrefs == 0 {
			nrefs = 1
		}
		if i == 0 && sp.Kind != "local" && sp.Kind != "localbase" && g.Draw(5) == 0 {
			// an absolute path to a real file that no loader serves (the canary)
			abs := c11Ref{Target: -1}
			switch g.Draw(3) {
			case 0:
				abs.Type, abs.Name = "ssiraw", filepath.Join(canaryDir, "t1.txt") // must fail: not obtainable through the loaders
			case 1:
				abs.Type, abs.Name, abs.IfExists = "inc", filepath.Join(canaryDir, "a/t2.tpl"), true
			default:
				abs.Type, abs.Name, abs.IfExists = "lazy", filepath.Join(canaryDir, "c/t3.tpl"), true
			}
			f.Refs = append(f.Refs, abs)
		}
		for r := 0; r < nrefs; r++ {
			ref := c11Ref{Target: -1}
			// candidate targets: later files
			var cands []int
			for j := i + 1; j < n; j++ {
				if sp.Files[j].Kind != "base" {
					cands = append(cands, j)
				}
			}
			missing := len(cands) == 0 || g.Draw(7) == 6
			lazyRootedOnly := f.Kind == "child" || f.Kind == "macros"
			if missing {
				ref.Type = []string{"inc", "lazy"}[g.Draw(2)]
				if lazyRootedOnly && sp.Kind == "fs" {
					ref.Type = "inc"
				}
				ref.IfExists = true
				nope := "c/nope.tpl"
				if g.Draw(3) == 0 {
					// the name of a directory that holds templates: a directory is not a template
					for oi := n - 1; oi > i; oi-- {
						if d := path.Dir(sp.Files[oi].Path); d != "." && d != "/" {
							if _, clash := existing[normPath(d)]; !clash {
								nope = d
								break
							}
						}
					}
				}
				ref.Name, _ = c11WriteName(g, sp, self, c11TargetPath(sp, nope), lazyRootedOnly)
				if c11Relative(sp.Kind) && ref.Type == "inc" && g.Draw(2) == 0 {
					// a decoy: the bare file name of a template that exists in ANOTHER directory;
					// relative to this file it names nothing
					for oi, of := range sp.Files {
						// (only later files: should an engine wrongly serve the decoy, the graph stays acyclic)
						if oi > i && path.Dir(of.Path) != path.Dir(f.Path) && of.Kind == "plain" {
							cand := path.Base(of.Path)
							if _, clash := existing[normPath(path.Join(path.Dir(f.Path), cand))]; !clash {
								ref.Name = cand
								break
							}
						}
					}
				}
				if i == 0 && f.Kind == "plain" && g.Draw(5) == 0 {
					ref.IfExists = false // a missing name without if_exists: the operation must fail
				}
			} else {
				j := cands[g.Draw(len(cands))]
				ref.Target = j
				tk := sp.Files[j].Kind
				switch tk {
				case "raw":
					ref.Type = "ssiraw"
				case "macros":
					ref.Type = "import"
				default:
					ref.Type = []string{"inc", "inc", "lazy", "lazy", "ssi"}[g.Draw(5)]
				}
				if ref.Type == "lazy" && lazyRootedOnly && sp.Kind == "fs" {
					ref.Type = "inc" // FSLoader has no rooted names; a lazy relative name here is outside the claim
				}
				lazyish := ref.Type == "lazy"
				ref.Name, _ = c11WriteName(g, sp, self, c11TargetPath(sp, sp.Files[j].Path), lazyRootedOnly && lazyish)
				if ref.Type == "inc" || ref.Type == "lazy" {
					ref.IfExists = g.Draw(4) == 0
				}
			}
			if ref.Type == "inc" || ref.Type == "lazy" {
				switch g.Draw(4) {
				case 0:
					ref.With = fmt.Sprintf("W%d_%d", i, r)
				case 1:
					ref.With = fmt.Sprintf("W%d_%d", i, r)
					ref.Only = true
				}
				if ref.Type == "inc" && ref.WithSv == "" && g.Draw(5) == 0 {
					ref.InnerSv = fmt.Sprintf("IN%d_%d", i, r)
				}
				if ref.With == "" && g.Draw(4) == 0 {
					ref.WithNil = true
					ref.Only = g.Draw(3) == 0
				}
				if ref.With != "" && g.Draw(2) == 1 {
					ref.With2 = fmt.Sprintf("V%d_%d", i, r)
					ref.With2Ref = g.Draw(3) == 0
				}
				if ref.With != "" && g.Draw(3) == 0 {
					ref.WithSv = fmt.Sprintf("P%d_%d", i, r) // the pair must win over the includer's own sv
				}
				if ref.Type == "lazy" && g.Draw(6) == 0 {
					ref.Dead = true
				}
				ref.AeOff = g.Draw(4) == 0
				if ref.Type == "lazy" && i == 0 && g.Draw(2) == 0 {
					ref.Var = fmt.Sprintf("lzn%d", r)
					ref.GlobalName = "no/such/global-name.tpl"
					for oi := n - 1; oi > 0; oi-- {
						if of := sp.Files[oi]; oi != ref.Target && (of.Kind == "plain" || of.Kind == "raw") {
							ref.GlobalName, _ = c11WriteName(g, sp, self, c11TargetPath(sp, of.Path), true)
							break
						}
					}
				}
			}
			f.Refs = append(f.Refs, ref)
		}
	}
	top := c11TargetPath(sp, sp.Files[0].Path)
	sp.TopName = top
	sp.TopTrim = sp.Files[0].Kind == "plain" && !strings.HasPrefix(sp.Entry, "RenderTemplate") && g.Draw(4) == 0
}

// c11TargetPath: the path under which a file is addressed from the loader's root.
func c11TargetPath(sp *c11Spec, p string) string {
	if sp.Kind == "local" || sp.Kind == "localbase" {
		if sp.Kind == "localbase" {
			return p
		}
		return path.Join(sp.Root, p)
	}
	return p
}

func c11SelfName(sp *c11Spec, p string) string {
	if sp.Kind == "local" || sp.Kind == "localbase" {
		return path.Join(sp.Root, p)
	}
	return p
}

func c11RefText(ref c11Ref, k int) string {
	tail := ""
	if ref.IfExists {
		tail += " if_exists"
	}
	if ref.WithNil && ref.With == "" {
		tail += " with wv=nl"
		if ref.Only {
			tail += " only"
		}
	}
	if ref.With != "" {
		tail += fmt.Sprintf(` with wv="%s"`, ref.With)
		if ref.With2Ref {
			tail += " wv2=wv"
		} else if ref.With2 != "" {
			tail += fmt.Sprintf(` wv2="%s"`, ref.With2)
		}
		if ref.WithSv != "" {
			tail += fmt.Sprintf(` sv="%s"`, ref.WithSv)
		}
		if ref.Only {
			tail += " only"
		}
	}
	switch ref.Type {
	case "inc":
		if ref.InnerSv != "" {
			return fmt.Sprintf(`{%% with sv="%s" wv="w%s" %%}{%% include "%s"%s %%}{%% endwith %%}`, ref.InnerSv, ref.InnerSv, ref.Name, tail)
		}
		if ref.AeOff {
			return fmt.Sprintf(`{%% autoescape off %%}{%% include "%s"%s %%}{%% endautoescape %%}`, ref.Name, tail)
		}
		return fmt.Sprintf(`{%% include "%s"%s %%}`, ref.Name, tail)
	case "lazy":
		s := fmt.Sprintf(`{%% include nl|default:"%s"%s %%}`, ref.Name, tail)
		if ref.Var != "" {
			s = fmt.Sprintf(`{%% include %s%s %%}`, ref.Var, tail)
		}
		if ref.AeOff {
			s = "{% autoescape off %}" + s + "{% endautoescape %}"
		}
		if ref.Dead {
			return "{% if no %}" + s + "{% endif %}"
		}
		return s
	case "ssi":
		return fmt.Sprintf(`{%% ssi "%s" parsed %%}`, ref.Name)
	case "ssiraw":
		return fmt.Sprintf(`{%% ssi "%s" %%}`, ref.Name)
	case "import":
		return fmt.Sprintf(`{%% import "%s" mac as m%d %%}{{ m%d() }}`, ref.Name, k, k)
	}
	return ""
}

func c11Content(sp *c11Spec, i, d int) string {
	f := sp.Files[i]
	var refs strings.Builder
	for k, r := range f.Refs {
		refs.WriteString(c11RefText(r, k))
	}
	switch f.Kind {
	case "raw":
		return fmt.Sprintf("<RAW:%s@%d>{{ nope }}{%% nope %%}", f.Path, d)
	case "macros":
		return fmt.Sprintf("{%% macro mac() export %%}<M:%s@%d>%s</M>{%% endmacro %%}", f.Path, d, refs.String())
	case "base":
		return fmt.Sprintf("<B:%s@%d>{%% block k %%}<Bdef:%s@%d>%s</Bdef>{%% endblock %%}<Bend>", f.Path, d, f.Path, d, refs.String())
	case "child":
		return fmt.Sprintf(`{%% extends "%s" %%}{%% block k %%}<C:%s@%d>%s{{ block.Super }}</C>{%% endblock %%}`, f.PName, f.Path, d, refs.String())
	}
	// sv is a private variable (set) of whoever includes this file; the file then sets its own
	// (the newline after the set tag stays unless the template it belongs to has TrimBlocks on)
	return fmt.Sprintf("<F:%s@%d|pv={{ pv }}|wv={{ wv }}|w2={{ wv2 }}|sv={{ sv }}>{%% set sv = \"S%d\" %%}\n%s</F>", f.Path, d, i, refs.String())
}

func c11DiskPath(sp *c11Spec, p string) string {
	if sp.Kind == "httpbase" {
		return normPath("tplroot/" + p)
	}
	return normPath(p)
}

// ---- reference interpreter -----------------------------------------------------------

type c11Env struct{ pv, wv, wv2, sv string }

// the caller's pv needs escaping; every file prints it at the top level of its own rendering,
// where autoescape is on (no set of this check switches it off)
const c11PV, c11PVEscaped = "P<&", "P&lt;&amp;"

type c11Fault struct {
	Disk  int    `json:"disk"`
	Path  string `json:"path"` // disk path
	Kind  uint32 `json:"kind"`
	Param uint32 `json:"param"`
	Count int    `json:"count"` // -1 persistent, n: first n Gets
}

type c11Ref2 struct {
	nd      int // loaders the set has right now
	sp      *c11Spec
	byPath  map[string]int // resolved (engine-visible, normalised) path -> file index
	faults  []c11Fault
	seen    map[string]int // Gets so far per disk:path
	used    map[string]bool
	probes  map[string]int
	fetched map[string]bool // "disk:path" the reference itself asked for (successful or not)
}

type c11Node struct {
	file  int
	disk  int
	kids  []*c11Node // per ref: compiled static child (nil: empty/lazy)
	par   *c11Node   // child: compiled base
	empty []bool     // per ref: renders nothing (if_exists caught)
}

const (
	c11OK = iota
	c11FromFile
	c11Other
)

// fetch models resolveTemplate + ReadAll for an engine-visible name: which disk serves it.
func (r *c11Ref2) fetch(name string) (file, disk int, status int) {
	dp := name
	if r.sp.Kind == "httpbase" {
		dp = normPath("tplroot/" + name)
	} else if r.sp.Kind == "local" || r.sp.Kind == "localbase" {
		rel, err := filepath.Rel(r.sp.Root, name)
		if err != nil || strings.HasPrefix(rel, "..") {
			return -1, -1, c11FromFile
		}
		dp = normPath(rel)
	} else {
		dp = normPath(name)
	}
	idx, exists := r.byPath[dp]
	for d := 0; d < r.nd; d++ {
		has := false
		if exists {
			for _, fd := range r.sp.Files[idx].Disks {
				if fd == d {
					has = true
				}
			}
		}
		key := fmt.Sprintf("%d:%s", d, dp)
		r.fetched[key] = true
		nth := r.seen[key]
		r.seen[key] = nth + 1
		if !has {
			continue
		}
		var flt *c11Fault
		for i := range r.faults {
			f := &r.faults[i]
			if f.Disk == d && f.Path == dp && (f.Count < 0 || nth < f.Count) {
				flt = f
			}
		}
		if flt != nil && flt.Kind == FGetEIO {
			continue // falls through to the next loader
		}
		if flt != nil && flt.Kind == FReadEIO {
			return idx, d, c11FromFile // Get succeeded, reading failed: no fall-through
		}
		if d > 0 {
			r.probes["fell_through_to_later_loader"]++
		}
		if len(r.sp.Files[idx].Disks) > 1 {
			r.probes["first_loader_wins_choice"]++
		}
		return idx, d, c11OK
	}
	return -1, -1, c11FromFile
}

func (r *c11Ref2) compile(name string) (*c11Node, int) {
	fi, d, st := r.fetch(name)
	if st != c11OK {
		return nil, st
	}
	f := r.sp.Files[fi]
	n := &c11Node{file: fi, disk: d, kids: make([]*c11Node, len(f.Refs)), empty: make([]bool, len(f.Refs))}
	self := name
	if f.Kind == "child" {
		r.probes["extends"]++
		p, st := r.compile(c11Resolve(r.sp, self, f.PName))
		if st != c11OK {
			return nil, st
		}
		n.par = p
	}
	for k, ref := range f.Refs {
		switch ref.Type {
		case "inc", "ssi", "import":
			kid, st := r.compile(c11Resolve(r.sp, self, ref.Name))
			if st != c11OK {
				if ref.Type == "inc" && ref.IfExists && st == c11FromFile {
					n.empty[k] = true
					r.probes["if_exists_rendered_nothing"]++
					continue
				}
				return nil, st
			}
			n.kids[k] = kid
		case "ssiraw":
			fi, d, st := r.fetch(c11Resolve(r.sp, self, ref.Name))
			if st != c11OK {
				return nil, c11Other // tag:ssi error, not a "fromfile" one
			}
			n.kids[k] = &c11Node{file: fi, disk: d}
			r.probes["ssi_plain"]++
		}
	}
	return n, c11OK
}

// exec renders a compiled node; execName is the name of the template whose execution
// this is (lazy names resolve against it).
func (r *c11Ref2) exec(n *c11Node, name string, env c11Env, b *strings.Builder) bool {
	f := r.sp.Files[n.file]
	switch f.Kind {
	case "child":
		// the base document runs; its block is replaced by the child's
		pf := r.sp.Files[n.par.file]
		baseName := c11Resolve(r.sp, name, f.PName)
		fmt.Fprintf(b, "<B:%s@%d>", pf.Path, n.par.disk)
		fmt.Fprintf(b, "<C:%s@%d>", f.Path, n.disk)
		// child block refs: static resolved against the child at compile time; lazy against the executing (base) template
		if !r.execRefs(n, f, baseName, env, b) {
			return false
		}
		// block.Super
		fmt.Fprintf(b, "<Bdef:%s@%d>", pf.Path, n.par.disk)
		if !r.execRefs(n.par, pf, baseName, env, b) {
			return false
		}
		b.WriteString("</Bdef></C><Bend>")
		return true
	case "base":
		fmt.Fprintf(b, "<B:%s@%d><Bdef:%s@%d>", f.Path, n.disk, f.Path, n.disk)
		if !r.execRefs(n, f, name, env, b) {
			return false
		}
		b.WriteString("</Bdef><Bend>")
		return true
	case "macros":
		return true // a macro file renders nothing by itself
	}
	fmt.Fprintf(b, "<F:%s@%d|pv=%s|wv=%s|w2=%s|sv=%s>", f.Path, n.disk, env.pv, env.wv, env.wv2, env.sv)
	if !(r.sp.TopTrim && n.file == 0) {
		b.WriteString("\n") // only the top template was given TrimBlocks (by its caller, on the template object)
	}
	env.sv = fmt.Sprintf("S%d", n.file)
	if !r.execRefs(n, f, name, env, b) {
		return false
	}
	b.WriteString("</F>")
	return true
}

func (r *c11Ref2) execRefs(n *c11Node, f c11File, execName string, env c11Env, b *strings.Builder) bool {
	for k, ref := range f.Refs {
		if n.empty[k] {
			continue
		}
		sub := env
		if ref.Only {
			// nothing of the includer - what remains is what every execution in this set
			// starts from, the set's Globals
			sub = c11Env{pv: "GLOBAL-PV"}
			r.probes["only_scope"]++
		}
		if ref.InnerSv != "" && !ref.Only {
			// (bound for the include inside the block only: whatever is included later, outside,
			// sees the includer's own values again)
			sub.sv = ref.InnerSv
			sub.wv = "w" + ref.InnerSv
		}
		if ref.With != "" {
			sub.wv = ref.With
		} else if ref.WithNil {
			sub.wv = ""
		}
		if ref.With2Ref {
			// pairs are evaluated in the includer's scope at the include site - which is inside the
			// inner with block, if there is one
			sub.wv2 = env.wv
			if ref.InnerSv != "" {
				sub.wv2 = "w" + ref.InnerSv
			}
		} else if ref.With2 != "" {
			sub.wv2 = ref.With2
		}
		if ref.WithSv != "" {
			sub.sv = ref.WithSv
		}
		switch ref.Type {
		case "inc":
			kid := n.kids[k]
			if !r.exec(kid, c11Resolve(r.sp, c11NodeName(r.sp, n, execName), ref.Name), sub, b) {
				return false
			}
		case "ssi":
			r.probes["ssi_parsed"]++
			kid := n.kids[k]
			if !r.exec(kid, c11Resolve(r.sp, c11NodeName(r.sp, n, execName), ref.Name), env, b) {
				return false
			}
		case "ssiraw":
			kid := n.kids[k]
			fmt.Fprintf(b, "<RAW:%s@%d>{{ nope }}{%% nope %%}", r.sp.Files[kid.file].Path, kid.disk)
		case "import":
			r.probes["import"]++
			kid := n.kids[k]
			mf := r.sp.Files[kid.file]
			fmt.Fprintf(b, "<M:%s@%d>", mf.Path, kid.disk)
			// macro body runs in the caller's execution: lazy names resolve against execName
			if !r.execRefs(kid, mf, execName, env, b) {
				return false
			}
			b.WriteString("</M>")
		case "lazy":
			if ref.Dead {
				r.probes["lazy_never_executed_not_fetched"]++
				continue
			}
			r.probes["lazy_include"]++
			target := c11Resolve(r.sp, execName, ref.Name)
			kid, st := r.compile(target)
			if st != c11OK {
				if ref.IfExists && st == c11FromFile {
					r.probes["if_exists_rendered_nothing"]++
					continue
				}
				return false
			}
			if !r.exec(kid, target, sub, b) {
				return false
			}
		}
	}
	return true
}

// c11NodeName: static references were resolved at compile time against the file that
// contains them; for relative kinds that is the file's own (normalised) name.
func c11NodeName(sp *c11Spec, n *c11Node, execName string) string {
	return c11SelfName(sp, sp.Files[n.file].Path)
}

// ---- run --------------------------------------------------------------------------------

type c11Result struct {
	Out    string `json:"out"`
	Err    string `json:"err"`
	Panic  string `json:"panic"`
	Failed bool   `json:"failed"`
}

func (c11Checker) Run(tp *Tapes, opt RunOpt) *Outcome {
	out := &Outcome{Faults: map[string]int{}}
	if err := ensureCanary(); err != nil {
		out.HarnessErr = "cannot set up the canary directory: " + err.Error()
		return out
	}
	out.probe("canary_in_place")
	sp := c11Gen(tp)
	isLocal := sp.Kind == "local" || sp.Kind == "localbase"
	if isLocal {
		// fixed-width name: the directory name ends up in error positions (columns)
		c11TreeSeq++
		root := filepath.Join(os.TempDir(), fmt.Sprintf("c11tree-%07d-%07d", os.Getpid()%10000000, c11TreeSeq%10000000))
		os.RemoveAll(root)
		if err := os.MkdirAll(root, 0o755); err != nil {
			out.HarnessErr = err.Error()
			return out
		}
		sp.Root = root
		defer os.RemoveAll(root)
		out.probe("local_loader_run")
	}
	c11Finish(tp, sp)

	// materialise the disks
	disks := make([]*DiskSpec, sp.NDisks)
	for d := range disks {
		disks[d] = &DiskSpec{Files: map[string][]FileVer{}}
	}
	byPath := map[string]int{}
	for i, f := range sp.Files {
		byPath[c11DiskPath(sp, f.Path)] = i
		for _, d := range f.Disks {
			disks[d].Files[c11DiskPath(sp, f.Path)] = []FileVer{{Content: c11Content(sp, i, d)}}
		}
	}
	if isLocal {
		for i, f := range sp.Files {
			p := filepath.Join(sp.Root, f.Path)
			os.MkdirAll(filepath.Dir(p), 0o755)
			if err := os.WriteFile(p, []byte(c11Content(sp, i, 0)), 0o644); err != nil {
				out.HarnessErr = err.Error()
				return out
			}
		}
	}
	ph := newHasher()
	ph.str(fmt.Sprintf("%s|%d|%s|%s", sp.Kind, sp.NDisks, sp.BaseDir, sp.Entry))
	for i, f := range sp.Files {
		ph.str(f.Path)
		ph.str(fmt.Sprint(f.Disks))
		ph.str(strings.ReplaceAll(c11Content(sp, i, 0), sp.Root, "$ROOT"))
	}
	out.ProgHash = uint64(ph)

	var lastFaults []c11Fault
	viol := func(class, key, detail string, exp, obs any) {
		out.addViolation(class, key, detail, exp, map[string]any{"spec": sp, "faults": lastFaults, "observed": obs})
	}

	// one whole operation in a fresh world
	type runOut struct {
		res  c11Result
		gets []GetRec
		acc  []AccessRec
	}
	doRun := func(faults []c11Fault) runOut {
		lastFaults = faults
		w := NewWorld(disks)
		var plan []FaultSpec
		for _, f := range faults {
			plan = append(plan, FaultSpec{Site: KGet, Task: -1, Op: -1, Occ: 0, Fault: f.Kind, Param: f.Param, Repeat: map[bool]int{true: -1, false: f.Count - 1}[f.Count < 0], Match: f.Path, Disk: f.Disk})
		}
		old := SetCurWorld(w)
		defer SetCurWorld(old)
		var loaders []pongo2.TemplateLoader
		for d := 0; d < sp.NDisks; d++ {
			ls := LoaderSpec{Kind: sp.Kind, Disk: d, BaseDir: sp.BaseDir, OwnMiss: sp.OwnMiss}
			if sp.Kind == "localbase" {
				ls.BaseDir = sp.Root
			}
			loaders = append(loaders, w.MakeLoader(d, ls))
		}
		set := pongo2.NewSet("C11", loaders[0])
		c11Globals(sp, set)
		var ro runOut
		added := false
		addRest := func() {
			if !added && len(loaders) > 1 {
				set.AddLoader(loaders[1:]...)
			}
			added = true
		}
		enter := func() {
			defer func() {
				if p := recover(); p != nil {
					ro.res.Panic = fmt.Sprintf("%v\n%s", p, pongoFrames(shortStack()))
					ro.res.Failed = true
				}
			}()
			var tpl *pongo2.Template
			var err error
			if strings.HasPrefix(sp.Entry, "RenderTemplate") {
				// one-shot entry points (written with Must: a compile error arrives as panic(error))
				var s string
				func() {
					defer func() {
						if p := recover(); p != nil {
							e, isErr := p.(error)
							if !isErr {
								panic(p)
							}
							err = e
						}
					}()
					switch sp.Entry {
					case "RenderTemplateString":
						s, err = set.RenderTemplateString(c11Content(sp, 0, sp.Files[0].Disks[0]), c11Ctx(sp))
					case "RenderTemplateBytes":
						s, err = set.RenderTemplateBytes([]byte(c11Content(sp, 0, sp.Files[0].Disks[0])), c11Ctx(sp))
					default:
						s, err = set.RenderTemplateFile(sp.TopName, c11Ctx(sp))
					}
				}()
				if err != nil {
					ro.res.Err, ro.res.Failed = "render: "+err.Error(), true
					return
				}
				ro.res.Out = s
				return
			}
			switch sp.Entry {
			case "FromCache":
				tpl, err = set.FromCache(sp.TopName)
			case "FromString":
				tpl, err = set.FromString(c11Content(sp, 0, sp.Files[0].Disks[0]))
			case "FromBytes":
				buf := []byte(c11Content(sp, 0, sp.Files[0].Disks[0]))
				tpl, err = set.FromBytes(buf)
				reuseBuffer(buf)
			default:
				tpl, err = set.FromFile(sp.TopName)
			}
			if err != nil {
				ro.res.Err, ro.res.Failed = "compile: "+err.Error(), true
				return
			}
			addRest() // (LateLoaders: only now)
			if sp.TopTrim {
				tpl.Options.TrimBlocks = true
			}
			s, err := tpl.Execute(c11Ctx(sp))
			if err != nil {
				ro.res.Err, ro.res.Failed = "execute: "+err.Error(), true
				return
			}
			ro.res.Out = s
		}
		if sp.WarmUp && len(loaders) > 1 {
			// the set starts out with its first loader only and is used once like that
			// (fault-free; whatever comes out is the caller's business); the other loaders
			// are added afterwards. What counts is the loader list at the time of the operation.
			enter()
			ro = runOut{}
			w.Gets, w.Access = nil, nil
			w.pathCounts = map[string]int{}
			w.counts = map[[3]int]int{}
			w.active = map[int]int{}
			w.Fired = map[string]int{}
			out.probe("loaders_added_after_first_use")
		}
		if !sp.LateLoaders {
			addRest()
		}
		w.Plan = plan
		enter()
		out.Execs++
		for k, v := range w.Fired {
			out.Faults[k] += v
			switch k {
			case "get_eio":
				out.probe("get_eio_fired")
			case "read_eio_at":
				out.probe("read_eio_fired")
			case "read_short":
				out.probe("read_short_fired")
			}
		}
		ro.gets, ro.acc = w.Gets, w.Access
		return ro
	}

	// the reference for the same fault set
	reference := func(faults []c11Fault) (c11Result, map[string]bool, map[string]int) {
		r := &c11Ref2{sp: sp, byPath: byPath, faults: faults, seen: map[string]int{}, probes: map[string]int{}, fetched: map[string]bool{}}
		r.nd = sp.NDisks
		if sp.LateLoaders {
			r.nd = 1
			r.probes["loaders_added_between_compile_and_execute"]++
		}
		var res c11Result
		var node *c11Node
		st := c11OK
		topName := sp.TopName
		if c11StringEntry(sp.Entry) {
			// the string is file 0's content; it has no name: references resolve from ""
			f := sp.Files[0]
			node = &c11Node{file: 0, disk: f.Disks[0], kids: make([]*c11Node, len(f.Refs)), empty: make([]bool, len(f.Refs))}
			topName = ""
			if f.Kind == "child" {
				p, pst := r.compile(c11ResolveString(sp, f.PName))
				if pst != c11OK {
					st = pst
				}
				node.par = p
			}
			for k, ref := range f.Refs {
				if st != c11OK {
					break
				}
				switch ref.Type {
				case "inc", "ssi", "import":
					kid, kst := r.compile(c11ResolveString(sp, ref.Name))
					if kst != c11OK {
						if ref.Type == "inc" && ref.IfExists && kst == c11FromFile {
							node.empty[k] = true
							r.probes["if_exists_rendered_nothing"]++
							continue
						}
						st = kst
						break
					}
					node.kids[k] = kid
				case "ssiraw":
					fi, d, fst := r.fetch(c11ResolveString(sp, ref.Name))
					if fst != c11OK {
						st = c11Other
						break
					}
					node.kids[k] = &c11Node{file: fi, disk: d}
				}
			}
		} else {
			node, st = r.compile(c11Resolve(sp, "", sp.TopName))
		}
		if st != c11OK {
			res.Failed = true
			return res, r.fetched, r.probes
		}
		r.nd = sp.NDisks // executing: all loaders are there
		var b strings.Builder
		execName := c11Resolve(sp, "", topName)
		if c11StringEntry(sp.Entry) {
			execName = "" // a string template passes names on unresolved: they resolve from ""
		}
		if !r.exec(node, execName, c11Env{pv: c11PVEscaped}, &b) {
			res.Failed = true
			return res, r.fetched, r.probes
		}
		res.Out = b.String()
		return res, r.fetched, r.probes
	}

	allowed := c11Allowed(sp)
	check := func(faults []c11Fault, label string) (runOut, bool) {
		ro := doRun(faults)
		norm := func(x string) string {
			if sp.Root != "" {
				return strings.ReplaceAll(x, sp.Root, "$ROOT")
			}
			return x
		}
		out.dig(norm(ro.res.Out), norm(ro.res.Err), firstLine(ro.res.Panic))
		want, fetched, probes := reference(faults)
		for k, v := range probes {
			for i := 0; i < v; i++ {
				out.probe(k)
			}
		}
		if ro.res.Panic != "" {
			viol("panic", label+" "+panicKey(ro.res.Panic), "the operation panicked: "+firstLine(ro.res.Panic), nil, ro.res)
			return ro, false
		}
		if strings.Contains(ro.res.Out, "CANARY") || strings.Contains(ro.res.Err, "CANARY") {
			viol("canary", label, "content of a real file that no loader serves appeared in the output", want, ro.res)
			return ro, false
		}
		if want.Failed != ro.res.Failed {
			if want.Failed {
				viol("missing_not_error", label, "the reference says the operation must fail (a referenced name is missing or unreadable and not guarded by if_exists) but it succeeded", want, ro.res)
			} else {
				viol("virtual_unresolved", label, "the operation failed although every referenced name can be obtained from the loaders", want, ro.res)
			}
			return ro, false
		}
		if want.Failed {
			out.probe("missing_is_error")
		}
		if !want.Failed && want.Out != ro.res.Out {
			cls := "wrong_content"
			if c11Partial(ro.res.Out) {
				cls = "partial_content"
			}
			viol(cls, label, "the rendered output differs from the reference rendering", want.Out, ro.res.Out)
			return ro, false
		}
		// access-log conformance: nothing is fetched that the templates involved do not reference
		_ = fetched
		if !isLocal {
			for _, g := range ro.gets {
				if !allowed[g.Path] {
					viol("unreferenced_fetch", label, fmt.Sprintf("disk %d was asked for %q, which no template involved references", g.Disk, g.Path), sortedBoolKeys(allowed), g)
					return ro, false
				}
			}
		} else {
			for _, a := range ro.acc {
				if a.What != "get" {
					continue
				}
				rel, err := filepath.Rel(sp.Root, a.Arg)
				if err != nil || strings.HasPrefix(rel, "..") || !allowed[normPath(rel)] {
					viol("unreferenced_fetch", label, fmt.Sprintf("the loader was asked for %q, which no template involved references", a.Arg), sortedBoolKeys(allowed), a)
					return ro, false
				}
			}
		}
		return ro, true
	}

	// ---- fault-free -------------------------------------------------------------------------
	base, ok := check(nil, "fault-free")
	cases := 0
	addCase := func(f []c11Fault) {
		ch := newHasher()
		ch.u64(out.ProgHash)
		for _, x := range f {
			ch.str(fmt.Sprintf("%d:%s:%d:%d:%d", x.Disk, x.Path, x.Kind, x.Param, x.Count))
		}
		out.CaseHashes = append(out.CaseHashes, uint64(ch))
		cases++
	}
	addCase(nil)
	// ---- every Get site singly ------------------------------------------------------------------
	if ok && !isLocal {
		type site struct {
			d int
			p string
			n int
		}
		var sites []site
		seen := map[string]bool{}
		for _, g := range base.gets {
			k := fmt.Sprintf("%d:%s", g.Disk, g.Path)
			if g.Ver < 0 || seen[k] {
				continue
			}
			seen[k] = true
			sites = append(sites, site{g.Disk, g.Path, len(disks[g.Disk].Files[g.Path][0].Content)})
		}
		for _, s := range sites {
			if len(out.Violations) > 0 {
				break
			}
			plans := [][]c11Fault{
				{{Disk: s.d, Path: s.p, Kind: FGetEIO, Count: -1}},
				{{Disk: s.d, Path: s.p, Kind: FGetEIO, Count: 1}},
				{{Disk: s.d, Path: s.p, Kind: FReadEIO, Param: 0, Count: -1}},
				{{Disk: s.d, Path: s.p, Kind: FReadEIO, Param: uint32(s.n / 2), Count: -1}},
				{{Disk: s.d, Path: s.p, Kind: FReadEIO, Param: uint32(s.n - 1), Count: -1}},
				{{Disk: s.d, Path: s.p, Kind: FReadShort, Param: 1, Count: -1}},
			}
			for _, p := range plans {
				if p[0].Count == 1 && c11FetchCount(base.gets, s.d, s.p) != 1 {
					continue // transient faults only on sites fetched once: the outcome must not depend on fetch order
				}
				ro, ok := check(p, FaultName(p[0].Kind))
				addCase(p)
				if ok && p[0].Kind == FReadShort && ro.res.Out != base.res.Out {
					viol("chunking_changed_output", "read_short", "delivering the template text one byte per Read changed the output", base.res.Out, ro.res.Out)
				}
				if !ok {
					break
				}
			}
		}
		// sampled pairs of persistent faults on two different sites
		if len(sites) >= 2 && len(out.Violations) == 0 {
			f := tp.Fault
			for n := 0; n < 2+f.DrawD(1, 12); n++ {
				a, b := sites[f.Draw(len(sites))], sites[f.Draw(len(sites))]
				if a == b {
					continue
				}
				p := []c11Fault{{Disk: a.d, Path: a.p, Kind: FGetEIO, Count: -1}, {Disk: b.d, Path: b.p, Kind: []uint32{FGetEIO, FReadEIO}[f.Draw(2)], Param: uint32(f.Draw(b.n + 1)), Count: -1}}
				check(p, "pair")
				addCase(p)
			}
		}
	}
	for _, f := range sp.Files {
		for _, r := range f.Refs {
			if strings.Contains(r.Name, "..") {
				out.probe("dotdot_name")
			}
			if !c11Relative(sp.Kind) || strings.HasPrefix(r.Name, "/") {
				out.probe("rooted_name")
			}
		}
	}
	out.Evals = out.Execs
	out.Steps = out.Execs
	th := newHasher()
	for _, c := range out.CaseHashes {
		th.u64(c)
	}
	out.TraceHash = uint64(th)
	out.NonTrivial = true
	if opt.Sample {
		out.Sample = map[string]any{"spec": sp, "fault_free_output": base.res, "cases": cases}
	}
	return out
}

func c11ResolveString(sp *c11Spec, name string) string {
	// a string template passes the written name on unresolved; FromFile then resolves it from ""
	return c11Resolve(sp, "", name)
}

func c11FetchCount(gets []GetRec, d int, p string) int {
	n := 0
	for _, g := range gets {
		if g.Disk == d && g.Path == p {
			n++
		}
	}
	return n
}

// c11Allowed over-approximates the disk paths the operation may ask for: the top-level
// name plus every resolution of every live reference from any template of the
// configuration (lazy names resolve against the executing template, whichever it is).
// References that are never executed contribute nothing.
func c11Allowed(sp *c11Spec) map[string]bool {
	al := map[string]bool{c11DiskPath(sp, sp.Files[0].Path): true}
	bases := []string{""}
	for _, f := range sp.Files {
		bases = append(bases, c11SelfName(sp, f.Path))
	}
	for _, f := range sp.Files {
		var names []string
		if f.Kind == "child" {
			names = append(names, f.PName)
		}
		for _, r := range f.Refs {
			if !r.Dead {
				names = append(names, r.Name)
			}
		}
		for _, n := range names {
			for _, b := range bases {
				al[c11DiskPathFromName(sp, c11Resolve(sp, b, n))] = true
			}
		}
	}
	return al
}

func c11DiskPathFromName(sp *c11Spec, name string) string {
	if sp.Kind == "local" || sp.Kind == "localbase" {
		rel, err := filepath.Rel(sp.Root, name)
		if err != nil {
			return name
		}
		return normPath(rel)
	}
	return c11DiskPathOf(sp, name)
}

func c11DiskPathOf(sp *c11Spec, name string) string {
	if sp.Kind == "httpbase" {
		return normPath("tplroot/" + name)
	}
	return normPath(name)
}

func sortedBoolKeys(m map[string]bool) []string {
	ks := make([]string, 0, len(m))
	for k := range m {
		ks = append(ks, k)
	}
	sort.Strings(ks)
	return ks
}

// c11Partial: does the output contain an opened but unclosed file marker?
func c11Partial(s string) bool {
	return strings.Count(s, "<F:") != strings.Count(s, "</F>")
}
