package sim

import (
	"bufio"
	"bytes"
	"context"
	"errors"
	"fmt"
	"io"
	"io/fs"
	"net"
	"net/http"
	"os"
	"path"
	"path/filepath"
	"sort"
	"strings"
	"syscall"
	"time"

	pongo2 "github.com/flosch/pongo2/v6"
)

// ---------------------------------------------------------------------------------
// Fault kinds (reply.D values)

const (
	FNone        uint32 = 0
	FGetEnoent   uint32 = 1  // natural: the name is absent on this disk right now
	FGetEIO      uint32 = 2  // injected: Get/Open fails
	FReadEIO     uint32 = 3  // injected: reader fails after A bytes
	FReadShort   uint32 = 4  // injected: reader delivers A bytes per Read call
	FWriteEIO    uint32 = 5  // injected: writer returns (0, err) and stays broken
	FWriteShort  uint32 = 6  // injected: writer returns (n<len, err) and stays broken
	FExecErr     uint32 = 7  // injected: context call-back returns an error
	FExecErrP2   uint32 = 8  // injected: call-back returns a *pongo2.Error
	FExecPanic   uint32 = 9  // injected: call-back panics (caller code dies in the middle of an execution)
	FGetPanic    uint32 = 10 // injected: the loader panics inside Get (caller code dies in the middle of a load)
	faultKindMax        = 11
)

var faultNames = [...]string{"none", "get_enoent", "get_eio", "read_eio_at", "read_short", "write_eio_at", "write_short_at", "exec_err_at", "exec_err_p2_at", "exec_panic_at", "get_panic"}

// InjectedPanic is the value a call-back panics with under FExecPanic.
type InjectedPanic struct{}

func (InjectedPanic) String() string { return "sim: injected panic in caller code" }

func FaultName(f uint32) string { return faultNames[f] }

var (
	ErrInjectedIO    = errors.New("sim: injected I/O error")
	ErrInjectedWrite = errors.New("sim: injected writer error")
	ErrInjectedExec  = errors.New("sim: injected call-back error")
)

// WriterErrors are the identities a failing caller's writer may report (write_eio_at's
// parameter selects one): what a real deployment meets when the peer goes away.
var WriterErrors = []error{
	ErrInjectedWrite,
	io.ErrClosedPipe,
	syscall.EPIPE,
	syscall.ECONNRESET,
	net.ErrClosed,
	io.ErrShortWrite,
	os.ErrDeadlineExceeded,
	&net.OpError{Op: "write", Net: "tcp", Err: syscall.EPIPE},
	context.Canceled,
}

// FaultSpec is one entry of the fault plan, fixed before the system runs.
type FaultSpec struct {
	Site   Kind   `json:"site"`
	Task   int    `json:"task"`            // -1: any task
	Op     int    `json:"op"`              // -1: occurrence counted over the whole run of the task; >=0: within that op of the task
	Occ    int    `json:"occ"`             // 0-based occurrence index of the site
	Fault  uint32 `json:"fault"`           // fault kind
	Param  uint32 `json:"param"`           // byte offset / chunk size / short count
	Repeat int    `json:"repeat"`          // additional consecutive occurrences that also fail (transient n); -1: until heal
	Match  string `json:"match,omitempty"` // KGet only: restrict to this normalised path ("" = any)
	Disk   int    `json:"disk"`            // KGet only: -1 any
}

func (f FaultSpec) String() string {
	return fmt.Sprintf("%s@%s[task=%d op=%d occ=%d param=%d repeat=%d match=%q disk=%d]", FaultName(f.Fault), f.Site, f.Task, f.Op, f.Occ, f.Param, f.Repeat, f.Match, f.Disk)
}

// ---------------------------------------------------------------------------------
// Simulated disks

type FileVer struct {
	Content string `json:"content"`
	Absent  bool   `json:"absent,omitempty"`
	Corrupt bool   `json:"corrupt,omitempty"` // does not compile (informational; Content is what is served)
}

type DiskSpec struct {
	// Files: normalised path -> versions. Version 0 is the initial one. Frozen before
	// any task starts; tasks only read it.
	Files map[string][]FileVer `json:"files"`
}

type disk struct {
	id   int
	spec *DiskSpec
	cur  map[string]int // scheduler-owned
}

func normPath(p string) string {
	p = strings.ReplaceAll(p, "\\", "/")
	p = path.Clean("/" + p)
	return strings.TrimPrefix(p, "/")
}

// ---------------------------------------------------------------------------------
// Records (scheduler-owned logs)

type GetRec struct {
	Seq   uint64 `json:"seq"`
	Task  int    `json:"task"`
	Op    int    `json:"op"`
	Disk  int    `json:"disk"`
	Path  string `json:"path"`
	Ver   int    `json:"ver"`   // version served (-1 none)
	Fault uint32 `json:"fault"` // FNone / FGetEnoent / injected kind
	RMode uint32 `json:"rmode,omitempty"`
}

type AccessRec struct {
	Seq    uint64 `json:"seq"`
	Task   int    `json:"task"`
	Loader int    `json:"loader"`
	What   string `json:"what"` // "abs", "get", "get-ok", "get-err"
	Arg    string `json:"arg"`
}

type OpStamp struct {
	Task, Op  int
	Call, Ret uint64
}

// per-goroutine mutable scratch (task-local, or the world's own in direct mode)
type local struct {
	nBytesResults int // ExecuteBytes results handed to this caller so far
	curOp         int
	serve         Reply // decision for the Get in flight
	cbCount       int
	writeSeen     int
	retained      []retainedBytes // results of earlier ExecuteBytes calls, still owned by the caller
}

// ---------------------------------------------------------------------------------
// World

type World struct {
	WriterKind int    // which kind of io.Writer the caller hands in (see CallerWriter)
	Sched      *Sched // nil: direct mode only
	disks      []*disk

	Plan       []FaultSpec
	Healed     bool
	counts     map[[3]int]int // (task, op|-1, site) -> occurrences so far
	pathCounts map[string]int // "disk:path" -> Gets so far
	active     map[int]int    // plan index -> remaining repeats

	Fired   map[string]int
	Gets    []GetRec
	Access  []AccessRec
	Stamps  []OpStamp
	Probes  map[string]int
	seqSolo uint64

	mainLocal local
	locals    [maxTasks]*local

	// environment events of the current phase
	EnvFn func(seq uint64, i int)
	// LockWaitFn (scheduler goroutine): task t, inside operation op, found a lock taken
	LockWaitFn func(t, op int)

	// inside-operation bookkeeping per task (scheduler-owned)
	inOp     [maxTasks + 1]int // current op index per task (+1 slot for main), -1 when outside
	lockHeld int
}

func NewWorld(disks []*DiskSpec) *World {
	w := &World{counts: map[[3]int]int{}, pathCounts: map[string]int{}, active: map[int]int{}, Fired: map[string]int{}, Probes: map[string]int{}}
	for i, d := range disks {
		w.disks = append(w.disks, &disk{id: i, spec: d, cur: map[string]int{}})
	}
	for i := range w.inOp {
		w.inOp[i] = -1
	}
	for i := range w.locals {
		w.locals[i] = &local{}
	}
	return w
}

func (w *World) local() *local {
	if tc := CurrentTask(); tc != nil {
		return w.locals[tc.ID]
	}
	return &w.mainLocal
}

func (w *World) probe(name string) { w.Probes[name]++ }

// call is the single entry of every seam: in a task it parks (yield point + fault
// point + history event); outside it is handled synchronously.
func (w *World) call(k Kind, a, b uint32, s string) Reply {
	if tc := CurrentTask(); tc != nil {
		return tc.Park(k, a, b, s)
	}
	w.seqSolo++
	seq := w.seqSolo
	if w.Sched != nil {
		seq = w.Sched.NextSeq()
		w.Sched.logf("%d main %s a=%d b=%d s=%q", seq, k, a, b, s)
	}
	m := &Msg{Task: maxTasks, Kind: k, A: a, B: b, S: s}
	return w.Resume(seq, m)
}

func (w *World) note(a, b uint32, s string) {
	if tc := CurrentTask(); tc != nil {
		tc.Note(a, b, s)
		return
	}
	w.seqSolo++
	seq := w.seqSolo
	if w.Sched != nil {
		seq = w.Sched.NextSeq()
	}
	w.Note(seq, &Msg{Task: maxTasks, Kind: KNote, A: a, B: b, S: s})
}

// matchFault looks the site occurrence up in the plan. Scheduler goroutine only.
func (w *World) matchFault(task int, k Kind, diskID int, p string) (FaultSpec, bool) {
	op := w.inOp[task]
	kAll := [3]int{task, -1, int(k)}
	kOp := [3]int{task, op, int(k)}
	occAll := w.counts[kAll]
	occOp := w.counts[kOp]
	w.counts[kAll] = occAll + 1
	if op >= 0 {
		w.counts[kOp] = occOp + 1
	}
	occPath := 0
	if k == KGet {
		pk := fmt.Sprintf("%d:%s", diskID, p)
		occPath = w.pathCounts[pk]
		w.pathCounts[pk] = occPath + 1
	}
	if w.Healed {
		return FaultSpec{}, false
	}
	for i, f := range w.Plan {
		if f.Site != k {
			continue
		}
		if f.Task >= 0 && f.Task != task && !(task == maxTasks && f.Task == 0) {
			continue
		}
		if k == KGet {
			if f.Match != "" && f.Match != p {
				continue
			}
			if f.Disk >= 0 && f.Disk != diskID {
				continue
			}
		}
		if rem, on := w.active[i]; on {
			if rem != 0 {
				if rem > 0 {
					w.active[i] = rem - 1
				}
				return f, true
			}
			continue
		}
		occ := occAll
		if k == KGet && f.Match != "" {
			occ = occPath // a fault bound to a path counts the fetches of that path
		} else if f.Op >= 0 {
			if f.Op != op {
				continue
			}
			occ = occOp
		}
		if occ == f.Occ {
			w.active[i] = f.Repeat
			return f, true
		}
	}
	return FaultSpec{}, false
}

func (w *World) Resume(seq uint64, m *Msg) Reply {
	t := m.Task
	switch m.Kind {
	case KOpBegin:
		w.inOp[t] = int(m.A)
		w.Stamps = append(w.Stamps, OpStamp{Task: t, Op: int(m.A), Call: seq})
	case KOpEnd:
		for i := len(w.Stamps) - 1; i >= 0; i-- {
			if w.Stamps[i].Task == t && w.Stamps[i].Op == int(m.A) {
				w.Stamps[i].Ret = seq
				break
			}
		}
		w.inOp[t] = -1
	case KGet:
		d := w.disks[m.A]
		p := m.S
		rec := GetRec{Seq: seq, Task: t, Op: w.inOp[t], Disk: d.id, Path: p, Ver: -1}
		if f, ok := w.matchFault(t, KGet, d.id, p); ok {
			w.Fired[FaultName(f.Fault)]++
			switch f.Fault {
			case FGetEIO, FGetPanic:
				rec.Fault = f.Fault
				w.Gets = append(w.Gets, rec)
				return Reply{D: f.Fault}
			case FReadEIO, FReadShort:
				vers, has := d.spec.Files[p]
				if has && !vers[d.cur[p]].Absent {
					rec.Ver = d.cur[p]
					rec.Fault = f.Fault
					rec.RMode = f.Param
					w.Gets = append(w.Gets, rec)
					return Reply{D: f.Fault, A: uint32(rec.Ver), B: f.Param}
				}
				w.Fired[FaultName(f.Fault)]-- // nothing to read: did not fire
			}
		}
		vers, has := d.spec.Files[p]
		if !has || vers[d.cur[p]].Absent {
			rec.Fault = FGetEnoent
			w.Gets = append(w.Gets, rec)
			return Reply{D: FGetEnoent}
		}
		rec.Ver = d.cur[p]
		w.Gets = append(w.Gets, rec)
		return Reply{A: uint32(rec.Ver)}
	case KWrite:
		if f, ok := w.matchFault(t, KWrite, 0, ""); ok {
			w.Fired[FaultName(f.Fault)]++
			return Reply{D: f.Fault, A: f.Param}
		}
	case KCallback:
		if f, ok := w.matchFault(t, KCallback, 0, ""); ok {
			w.Fired[FaultName(f.Fault)]++
			return Reply{D: f.Fault}
		}
	case KLockWait:
		w.probe("blocked_on_cache_lock")
	}
	return Reply{}
}

// LockWaited is called by the scheduler at the moment a task has found a lock taken.
func (w *World) LockWaited(task int) {
	if w.LockWaitFn != nil {
		w.LockWaitFn(task, w.inOp[task])
	}
}

func (w *World) Note(seq uint64, m *Msg) {
	w.Access = append(w.Access, AccessRec{Seq: seq, Task: m.Task, Loader: int(m.A), What: accessWhat[m.B], Arg: m.S})
}

var accessWhat = [...]string{"abs", "get", "get-ok", "get-err"}

func (w *World) EnvEvent(seq uint64, i int) {
	if w.EnvFn != nil {
		w.EnvFn(seq, i)
	}
}

// SetVersion is an environment event helper (scheduler goroutine only).
func (w *World) SetVersion(diskID int, p string, ver int) { w.disks[diskID].cur[p] = ver }
func (w *World) CurVersion(diskID int, p string) int      { return w.disks[diskID].cur[p] }

// ---------------------------------------------------------------------------------
// Task-side operation brackets

func (w *World) OpBegin(i int) {
	w.local().curOp = i
	w.local().cbCount = 0
	if tc := CurrentTask(); tc != nil {
		tc.noYield = 0 // (a panic inside a no-yield region of the previous operation leaves it raised)
	}
	w.call(KOpBegin, uint32(i), 0, "")
}
func (w *World) OpEnd(i int) { w.call(KOpEnd, uint32(i), 0, "") }

// ---------------------------------------------------------------------------------
// The disk seam: every byte of template text the engine sees comes through here.

func (w *World) open(diskID int, p string) (*simFile, error) {
	p = normPath(p)
	rep := w.call(KGet, uint32(diskID), 0, p)
	switch rep.D {
	case FGetEnoent:
		return nil, &fs.PathError{Op: "open", Path: p, Err: fs.ErrNotExist}
	case FGetEIO:
		return nil, &fs.PathError{Op: "open", Path: p, Err: ErrInjectedIO}
	case FGetPanic:
		panic(InjectedPanic{})
	}
	content := w.disks[diskID].spec.Files[p][rep.A].Content
	f := &simFile{w: w, name: p, data: content}
	switch rep.D {
	case FReadEIO:
		f.failAt = int(rep.B)
		if f.failAt > len(content) {
			f.failAt = len(content)
		}
		f.hasFail = true
	case FReadShort:
		f.chunk = int(rep.B)
		if f.chunk < 1 {
			f.chunk = 1
		}
	}
	return f, nil
}

type simFile struct {
	w       *World
	name    string
	data    string
	off     int
	chunk   int
	failAt  int
	hasFail bool
}

func (f *simFile) Read(p []byte) (int, error) {
	if len(p) == 0 {
		return 0, nil
	}
	limit := len(f.data)
	if f.hasFail {
		limit = f.failAt
	}
	if f.off >= limit {
		if f.hasFail {
			return 0, ErrInjectedIO
		}
		return 0, io.EOF
	}
	n := limit - f.off
	if n > len(p) {
		n = len(p)
	}
	if f.chunk > 0 && n > f.chunk {
		n = f.chunk
	}
	copy(p, f.data[f.off:f.off+n])
	f.off += n
	return n, nil
}
func (f *simFile) Close() error               { return nil }
func (f *simFile) Stat() (fs.FileInfo, error) { return simInfo{f}, nil }
func (f *simFile) Seek(offset int64, whence int) (int64, error) {
	return 0, errors.New("sim: seek not supported")
}
func (f *simFile) Readdir(count int) ([]fs.FileInfo, error) { return nil, errors.New("sim: not a dir") }

type simInfo struct{ f *simFile }

func (i simInfo) Name() string       { return path.Base(i.f.name) }
func (i simInfo) Size() int64        { return int64(len(i.f.data)) }
func (i simInfo) Mode() fs.FileMode  { return 0444 }
func (i simInfo) ModTime() time.Time { return time.Time{} }
func (i simInfo) IsDir() bool        { return false }
func (i simInfo) Sys() any           { return nil }

// simFS implements fs.FS over a disk (used under the real pongo2.FSLoader).
type simFS struct {
	w    *World
	disk int
}

func (s simFS) Open(name string) (fs.File, error) {
	f, err := s.w.open(s.disk, name)
	if err != nil {
		return nil, err
	}
	return f, nil
}

// simHTTPFS implements http.FileSystem over a disk (under the real HttpFilesystemLoader).
type simHTTPFS struct {
	w    *World
	disk int
}

func (s simHTTPFS) Open(name string) (http.File, error) {
	f, err := s.w.open(s.disk, name)
	if err != nil {
		return nil, err
	}
	return f, nil
}

// virtLoader: a purely virtual TemplateLoader. rel=false: names are always resolved
// from the loader's root. rel=true: relative to the directory of the referring template.
type virtLoader struct {
	w    *World
	disk int
	rel  bool
	// ownMiss: report a missing name with the loader's own error type instead of one that
	// wraps fs.ErrNotExist (loaders are free to do that)
	ownMiss bool
}

var errVirtMiss = errors.New("virtual loader: no template by that name")

func (l *virtLoader) Abs(base, name string) string {
	if strings.HasPrefix(name, "/") || !l.rel {
		return normPath(name)
	}
	return normPath(path.Join(path.Dir(base), name))
}

func (l *virtLoader) Get(p string) (io.Reader, error) {
	f, err := l.w.open(l.disk, p)
	if err != nil {
		if l.ownMiss && errors.Is(err, fs.ErrNotExist) {
			return nil, errVirtMiss
		}
		return nil, err
	}
	return f, nil
}

// recLoader decorates a real loader and records Abs/Get calls (access log).
type recLoader struct {
	w     *World
	id    int
	inner pongo2.TemplateLoader
}

func (l *recLoader) Abs(base, name string) string {
	r := l.inner.Abs(base, name)
	l.w.note(uint32(l.id), 0, base+"\x00"+name+"\x00"+r)
	return r
}

func (l *recLoader) Get(p string) (io.Reader, error) {
	l.w.note(uint32(l.id), 1, p)
	r, err := l.inner.Get(p)
	if err != nil {
		l.w.note(uint32(l.id), 3, p)
		return nil, err
	}
	l.w.note(uint32(l.id), 2, p)
	return r, nil
}

// mirrorLoader puts the real LocalFilesystemLoader under the simulated disk: for every Get the
// simulator decides first (yield point, fault point, history event, which version is current),
// then exactly that decision is materialised in a real directory - the file rewritten with the
// version being served, or removed - and the real loader reads it from there. Rewrites keep the
// modification time fixed (deployment tools that preserve mtimes do the same), and the versions
// of a file have the same length more often than not.
type mirrorLoader struct {
	w    *World
	disk int
	root string
	real pongo2.TemplateLoader
}

var mirrorMtime = time.Date(2020, 1, 2, 3, 4, 5, 0, time.UTC)

func (l *mirrorLoader) Abs(base, name string) string { return l.real.Abs(base, name) }

func (l *mirrorLoader) Get(p string) (io.Reader, error) {
	rel, err := filepath.Rel(l.root, p)
	if err != nil || strings.HasPrefix(rel, "..") {
		return l.real.Get(p)
	}
	f, err := l.w.open(l.disk, filepath.ToSlash(rel))
	if err != nil {
		if errors.Is(err, fs.ErrNotExist) {
			if tc := CurrentTask(); tc != nil {
				tc.noYield++
				defer func() { tc.noYield-- }()
			}
			os.Remove(p)
			return l.real.Get(p) // the real loader reports the miss its own way
		}
		return nil, err
	}
	if f.hasFail || f.chunk > 0 {
		return f, nil // read faults are the simulated reader's business
	}
	// from here to the end of the real loader's Get nothing else may run: the file on the real
	// disk must hold the version the simulator has just decided to serve when it is read
	// (the real loader is engine code and carries forced-yield points in the instrumented build)
	if tc := CurrentTask(); tc != nil {
		tc.noYield++
		defer func() { tc.noYield-- }()
	}
	if err := os.MkdirAll(filepath.Dir(p), 0o755); err != nil {
		return nil, err
	}
	if err := os.WriteFile(p, []byte(f.data), 0o644); err != nil {
		return nil, err
	}
	os.Chtimes(p, mirrorMtime, mirrorMtime)
	return l.real.Get(p)
}

// LoaderSpec describes one loader of a set.
type LoaderSpec struct {
	Kind    string `json:"kind"` // "fs", "http", "httpbase", "virt", "virtrel", "local", "localbase"
	OwnMiss bool   `json:"own_miss_error,omitempty"`
	Disk    int    `json:"disk"`
	BaseDir string `json:"basedir,omitempty"`
}

func (w *World) MakeLoader(id int, ls LoaderSpec) pongo2.TemplateLoader {
	var inner pongo2.TemplateLoader
	switch ls.Kind {
	case "fs":
		inner = pongo2.NewFSLoader(simFS{w, ls.Disk})
	case "http":
		inner = pongo2.MustNewHttpFileSystemLoader(simHTTPFS{w, ls.Disk}, "")
	case "httpbase":
		inner = pongo2.MustNewHttpFileSystemLoader(simHTTPFS{w, ls.Disk}, ls.BaseDir)
	case "virt":
		inner = &virtLoader{w: w, disk: ls.Disk, ownMiss: ls.OwnMiss}
	case "virtrel":
		inner = &virtLoader{w: w, disk: ls.Disk, rel: true, ownMiss: ls.OwnMiss}
	case "local":
		inner = pongo2.MustNewLocalFileSystemLoader("")
	case "localbase":
		inner = pongo2.MustNewLocalFileSystemLoader(ls.BaseDir)
	case "localmirror":
		inner = &mirrorLoader{w: w, disk: ls.Disk, root: ls.BaseDir, real: pongo2.MustNewLocalFileSystemLoader(ls.BaseDir)}
	default:
		panic("unknown loader kind " + ls.Kind)
	}
	return &recLoader{w: w, id: id, inner: inner}
}

// ---------------------------------------------------------------------------------
// The caller's writer

type SimWriter struct {
	w      *World
	Got    []byte // bytes accepted (task-local: the writer belongs to one op)
	Calls  int
	broken bool
	Failed bool
	Err    error // the error this writer fails with
	std    any   // kinds 4..6: the standard-library destination handed to the engine (see Collect)
}

func (w *World) NewWriter() *SimWriter { return &SimWriter{w: w} }

// Writers that can also be flushed (what an engine may probe for with a type assertion):
// nothing is ever held back by SimWriter, so there is never anything to flush.
type simFlushErrWriter struct{ *SimWriter }

func (simFlushErrWriter) Flush() error { return nil }

type simFlushWriter struct{ *SimWriter }

func (simFlushWriter) Flush() {}

// a writer that also implements io.StringWriter (most real destinations do: *os.File,
// *bufio.Writer, http.ResponseWriter implementations)
type simStringWriter struct{ *SimWriter }

func (s simStringWriter) WriteString(x string) (int, error) { return s.SimWriter.Write([]byte(x)) }

// CallerWriter wraps sw in the writer kind this world hands to the engine
// (0: io.Writer only, 1: with Flush() error, 2: with Flush(), 3: with WriteString).
func (w *World) CallerWriter(sw *SimWriter) io.Writer {
	switch w.WriterKind {
	case 1:
		return simFlushErrWriter{sw}
	case 2:
		return simFlushWriter{sw}
	case 3:
		return simStringWriter{sw}
	case 4: // the destinations real callers use most: the engine may recognise their types
		b := &bytes.Buffer{}
		sw.std = b
		return b
	case 5:
		b := &strings.Builder{}
		sw.std = b
		return b
	case 6:
		b := bufio.NewWriter(sw)
		sw.std = b
		return b
	}
	return sw
}

// Collect moves what a standard-library destination (kinds 4..6) received into Got.
func (sw *SimWriter) Collect() {
	switch b := sw.std.(type) {
	case *bytes.Buffer:
		sw.Got = append(sw.Got, b.Bytes()...)
	case *strings.Builder:
		sw.Got = append(sw.Got, b.String()...)
	case *bufio.Writer:
		b.Flush()
	}
	sw.std = nil
}

func (sw *SimWriter) Write(p []byte) (int, error) {
	sw.Calls++
	if sw.broken {
		return 0, sw.Err
	}
	rep := sw.w.call(KWrite, 0, uint32(len(p)), "")
	switch rep.D {
	case FWriteEIO:
		sw.broken, sw.Failed = true, true
		sw.Err = WriterErrors[int(rep.A)%len(WriterErrors)]
		return 0, sw.Err
	case FWriteShort:
		sw.broken, sw.Failed = true, true
		n := int(rep.A)
		if n >= len(p) {
			n = len(p) - 1
		}
		if n < 0 {
			n = 0
		}
		sw.Got = append(sw.Got, p[:n]...)
		sw.Err = ErrInjectedWrite
		return n, sw.Err
	}
	sw.Got = append(sw.Got, p...)
	return len(p), nil
}

// ---------------------------------------------------------------------------------
// Context call-backs (yield + fault points in the middle of an execution)

// Callback is what `y()`, `yv(x)`, the vsim filter and tag all funnel into.
func (w *World) Callback(id uint32) error {
	l := w.local()
	l.cbCount++
	rep := w.call(KCallback, id, 0, "")
	switch rep.D {
	case FExecErr:
		return ErrInjectedExec
	case FExecErrP2:
		return &pongo2.Error{Sender: "sim", OrigError: ErrInjectedExec}
	case FExecPanic:
		panic(InjectedPanic{})
	}
	return nil
}

// the world the globally registered vsim filter/tag talk to (one run at a time per process)
var curWorld *World

func SetCurWorld(w *World) *World { old := curWorld; curWorld = w; return old }

type vsimNode struct{}

func (vsimNode) Execute(ctx *pongo2.ExecutionContext, wr pongo2.TemplateWriter) *pongo2.Error {
	if curWorld == nil {
		return nil
	}
	if err := curWorld.Callback(100); err != nil {
		return ctx.OrigError(err, nil)
	}
	// a custom tag using the documented Shared context the documented way ("to share data
	// between tags" of one rendering): a counter of the vsim tags executed so far - where the
	// engine provides the map at all
	if ctx.Shared != nil {
		n, _ := ctx.Shared["vsim_n"].(int)
		ctx.Shared["vsim_n"] = n + 1
		wr.WriteString(fmt.Sprintf("<vsim#%d>", n))
	}
	return nil
}

func init() {
	pongo2.RegisterFilter("vsim", func(in *pongo2.Value, param *pongo2.Value) (*pongo2.Value, *pongo2.Error) {
		if curWorld != nil {
			if err := curWorld.Callback(101); err != nil {
				return nil, &pongo2.Error{Sender: "filter:vsim", OrigError: err}
			}
		}
		return in, nil
	})
	pongo2.RegisterTag("vsim", func(doc *pongo2.Parser, start *pongo2.Token, arguments *pongo2.Parser) (pongo2.INodeTag, *pongo2.Error) {
		if arguments.Remaining() > 0 {
			return nil, arguments.Error("vsim takes no arguments", nil)
		}
		return vsimNode{}, nil
	})
	pongo2.VerifSim = func(point string, l pongo2.VerifLocker) {
		tc := CurrentTask()
		if tc == nil {
			// no other task exists: if the lock is taken now, the caller itself holds it
			// and the Lock() that follows would block forever
			if !l.TryLock() {
				panic(SelfDeadlock{Point: point})
			}
			l.Unlock()
			return
		}
		tc.Park(KLock, 0, 0, point)
		for !l.TryLock() {
			tc.Park(KLockWait, 0, 0, point)
		}
		l.Unlock()
	}
}

// SelfDeadlock is the panic value raised (instead of hanging) when the engine, with
// no other task around, tries to acquire a lock it already holds.
type SelfDeadlock struct{ Point string }

// SafeRun runs one simulated run and turns a SelfDeadlock into a violation.
func SafeRun(c Checker, tp *Tapes, opt RunOpt) (o *Outcome) {
	defer func() {
		if r := recover(); r != nil {
			sd, ok := r.(SelfDeadlock)
			if !ok {
				panic(r)
			}
			SetCurWorld(nil)
			o = &Outcome{NonTrivial: true}
			o.addViolation("deadlock", sd.Point, "the engine tried to acquire a lock it already holds (it would block forever): "+sd.Point, nil, nil)
		}
	}()
	return c.Run(tp, opt)
}

// ---------------------------------------------------------------------------------
// helpers

func sortedKeys[V any](m map[string]V) []string {
	ks := make([]string, 0, len(m))
	for k := range m {
		ks = append(ks, k)
	}
	sort.Strings(ks)
	return ks
}

func errStr(err error) string {
	if err == nil {
		return ""
	}
	return err.Error()
}

var _ = os.Getpid
