//go:build race

package sim

import "runtime"

const RaceEnabled = true

func raceErrors() int { return runtime.RaceErrors() }
