package sim

import (
	"fmt"
	"os"
	"path/filepath"
	"sort"
	"strings"
	"time"

	"github.com/anishathalye/porcupine"
	pongo2 "github.com/flosch/pongo2/v6"
)

// C20 - template cache: one compile per name, coherent under concurrency.
// See DESIGN.md section 4 (C20).

type c20Op struct {
	Empty  bool   `json:"names_are_empty_strings,omitempty"`
	Others bool   `json:"also_names_files_that_are_not_cache_entries,omitempty"`
	Kind   string `json:"kind"`               // "from", "clean", "cleanall"
	Sp     int    `json:"spelling,omitempty"` // which spelling of the name(s) this call uses
	Set    int    `json:"set"`
	Name   int    `json:"name,omitempty"`
	Names  []int  `json:"names,omitempty"`
}

type c20Env struct {
	Kind string `json:"kind"` // "change", "corrupt", "delete", "create", "heal"
	Disk int    `json:"disk,omitempty"`
	File string `json:"file,omitempty"`
	Ver  int    `json:"ver,omitempty"`
}

type c20Phase struct {
	Debug []bool `json:"debug"`
	// LStrip: value of the set's LStripBlocks option during this phase (the caller changes
	// it between phases, like Debug; it has no effect on what the cached files render)
	LStrip []bool `json:"lstrip_blocks"`
	// AddLoader: before this phase the caller adds one more loader to the set (it serves nothing)
	AddLoader []bool    `json:"add_loader,omitempty"`
	Tasks     [][]c20Op `json:"tasks"`
	Env       []c20Env  `json:"env,omitempty"`
}

type c20Spec struct {
	Names       []string `json:"names"`
	Spell       []string `json:"spelled_as"` // how each name is written in FromCache/CleanCache calls (always the same way within a run)
	HasInc      []bool   `json:"has_inc"`
	Ext         []bool   `json:"extends_base,omitempty"` // the second file is a shared parent (extends "base.tpl") instead of an include
	SameSetName bool     `json:"sets_have_equal_names,omitempty"`
	// OptsOnTpl: the sets keep their default options; the caller switches TrimBlocks on for the
	// templates it got from the even sets on the template objects themselves (before executing them)
	OptsOnTpl bool       `json:"options_set_on_returned_templates,omitempty"`
	Loaders   []string   `json:"loaders"`
	Shared    bool       `json:"sets_share_one_loader_object"`
	Disk      *DiskSpec  `json:"disk"`
	Disk1     *DiskSpec  `json:"disk1,omitempty"` // second loader's disk (NLoad == 2)
	NLoad     int        `json:"loaders_per_set"`
	Phases    []c20Phase `json:"phases"`
	Strat     string     `json:"strategy"`
	strat     Strategy
	Plan      []FaultSpec `json:"fault_plan,omitempty"`
}

type c20Res struct {
	tpl *pongo2.Template
	err string
	pan string
}

type c20Checker struct{}

func init() { Register(c20Checker{}) }

func (c20Checker) ID() string { return "C20" }
func (c20Checker) ProbeNames() []string {
	return []string{"concurrent_miss_same_name", "blocked_on_cache_lock", "fault_inside_critical_section",
		"cleancache_overlapping_miss", "failed_then_healed_then_cached", "hit_after_content_change",
		"two_sets_same_name", "debug_on_phase", "hit", "miss", "failed_load", "loader_panic_recovered"}
}
func (c20Checker) Meta() CheckerMeta {
	return CheckerMeta{
		Level: "exploration",
		Rule: "each run = one seed: generated (names, sets, loader kind, phases with Debug settings, 1..4 tasks x 1..6 FromCache/CleanCache ops, " +
			"environment events changing/corrupting/deleting files, loader fault plan) executed under one seeded interleaving; " +
			"a run is non-trivial if it had >=1 pre-emption, lock block, environment event or fired fault; distinct = distinct hash of (workload, (task,site) interleaving, fired faults)",
		Real: []string{"pongo2 package (TemplateSet.FromCache/CleanCache/FromFile, lexer, parser, include tag)", "pongo2.FSLoader", "pongo2.HttpFilesystemLoader", "pongo2.LocalFilesystemLoader (real files in a temp directory mirroring the simulated disk)", "extends tag", "sync.Mutex", "io.ReadAll", "porcupine checker"},
		Stub: []string{"fs.FS / http.FileSystem contents (versioned in-memory disk)", "virtual TemplateLoader", "goroutine scheduling choices (seeded cooperative scheduler)"},
		Assumptions: []string{
			"loader Abs is idempotent (the engine resolves a cached name twice)",
			"Debug is only changed while no operation is in flight (documented as caller-synchronised)",
			"a race-class verdict relies on Go's race detector (happens-before based); it sees only executed paths",
		},
		QuickRuns: 10000, QuickRace: 2000,
	}
}

// spelling: how a call writes a name. Loaders whose Abs normalises (FSLoader, the virtual
// ones) treat "./n0.tpl", "zz/../n0.tpl" and "n0.tpl" as one name, so calls may mix
// spellings freely; HttpFilesystemLoader passes names through, so there every call uses
// the run's one spelling of the name.
func (sp *c20Spec) spelling(set, name, variant int) string {
	switch sp.Loaders[set] {
	case "fs", "virt", "virtrel", "localmirror":
		return []string{"", "./", "zz/../", "./zz/../"}[variant%4] + sp.Names[name]
	}
	return sp.Spell[name]
}

// second names the file a top-level template pulls in: its own include, or the parent
// that all extending names share.
func (sp *c20Spec) second(i int) string {
	if i < len(sp.Ext) && sp.Ext[i] {
		return "base.tpl"
	}
	return fmt.Sprintf("inc%d.tpl", i)
}

func c20SecondContent(file string, ver int, corrupt bool) string {
	if file == "base.tpl" {
		if corrupt {
			return fmt.Sprintf("(basev%d:{%% block b %%}{%% endblock %%}{%% endfor %%}", ver)
		}
		return fmt.Sprintf("(basev%d:{%% block b %%}{%% endblock %%})", ver)
	}
	if corrupt {
		return fmt.Sprintf("(%sv%d{%% endfor %%}", strings.TrimSuffix(file, ".tpl"), ver)
	}
	return fmt.Sprintf("(%sv%d)", strings.TrimSuffix(file, ".tpl"), ver)
}

func c20TopContent(name string, ver, disk int, hasInc bool, inc string, corrupt bool) string {
	// the part after the marker renders differently under the set's TrimBlocks option
	// (g0 / g1: a global that only set 0 / only set 1 defines; cm: an exported macro, so that a
	// context carrying the key "cm" is rejected before anything is rendered)
	// (ln: when the caller's context names another file, it is included at run time)
	s := fmt.Sprintf("[%sv%d@%d:{{ setname }}{{ g0 }}{{ g1 }}{{ gdef }}]{%% if true %%}\nT{%% endif %%}{%% if ln %%}{%% include ln with ln=\"\" %%}{%% endif %%}", name, ver, disk)
	const cm = "{% macro cm() export %}{% endmacro %}"
	if hasInc && inc == "base.tpl" {
		s = `{% extends "base.tpl" %}` + cm + `{% block b %}` + s + "{% endblock %}"
	} else if hasInc {
		s = cm + s + `{% include "` + inc + `" %}`
	} else {
		s = cm + s
	}
	if corrupt {
		s += "{% if %}"
	}
	return s
}

// The package's DefaultSet is a set like any other: it gets a global, a tag ban and a filter
// ban of its own (once per process; the harness never creates a template in it), none of
// which may show in any other set.
func init() {
	pongo2.DefaultSet.Globals["gdef"] = "GDEF-LEAK"
	pongo2.DefaultSet.BanTag("firstof")
	pongo2.DefaultSet.BanFilter("title")
}

func c20Gen(tp *Tapes) *c20Spec {
	g := tp.Gen
	sp := &c20Spec{Disk: &DiskSpec{Files: map[string][]FileVer{}}, Disk1: &DiskSpec{Files: map[string][]FileVer{}}, NLoad: 1}
	if g.Draw(3) == 2 {
		sp.NLoad = 2 // a stack of two loaders per set: the first one that has a name wins
	}
	disks := []*DiskSpec{sp.Disk, sp.Disk1}
	nNames := 1 + g.Draw(3)
	for i := 0; i < nNames; i++ {
		name := fmt.Sprintf("n%d.tpl", i)
		if i == 1 {
			switch g.Draw(4) {
			case 0, 1:
				name = sp.Names[0] + ".amp" // one resolved name is a string prefix of another
			case 2:
				name = "N0.TPL" // ... or differs from another in case only
			}
		}
		sp.Names = append(sp.Names, name)
		sp.Spell = append(sp.Spell, []string{"", "", "./", "zz/../"}[g.Draw(4)]+name)
		hasInc := g.Draw(3) == 1
		sp.HasInc = append(sp.HasInc, hasInc)
		sp.Ext = append(sp.Ext, hasInc && g.Draw(2) == 1)
		absent0 := g.Draw(8) == 7
		sp.Disk.Files[name] = []FileVer{{Content: c20TopContent(name, 0, 0, hasInc, sp.second(i), false), Absent: absent0}}
		if sp.NLoad == 2 {
			// where the name lives at first: first disk only, second only, or both
			place := g.Draw(3)
			sp.Disk.Files[name][0].Absent = absent0 || place == 1
			sp.Disk1.Files[name] = []FileVer{{Content: c20TopContent(name, 0, 1, hasInc, sp.second(i), false), Absent: place == 0}}
		}
		if hasInc {
			if _, has := sp.Disk.Files[sp.second(i)]; !has {
				sp.Disk.Files[sp.second(i)] = []FileVer{{Content: c20SecondContent(sp.second(i), 0, false)}}
			}
		}
	}
	nSets := 1 + g.Draw(2)
	for i := 0; i < nSets; i++ {
		sp.Loaders = append(sp.Loaders, []string{"fs", "virt", "http", "virtrel", "localmirror"}[g.Draw(5)])
		if sp.NLoad == 2 && sp.Loaders[i] == "localmirror" {
			// (a stack of two local loaders with different base directories cannot work in pongo2:
			// the name is made absolute by the first one and handed to both)
			sp.Loaders[i] = "virt"
		}
	}
	sp.strat = pickStrategy(g)
	sp.Strat = sp.strat.String()
	sp.SameSetName = nSets > 1 && g.Draw(2) == 1
	sp.OptsOnTpl = g.Draw(3) == 0
	if nSets > 1 && g.Draw(2) == 1 {
		// both sets are handed the very same loader object (a common deployment)
		sp.Shared = true
		sp.Loaders[1] = sp.Loaders[0]
	}
	nPhases := 1 + g.DrawD(3, 4)
	anyFault := false
	// fault plan first (fault tape), so that heal events can be placed
	f := tp.Fault
	if f.Draw(2) == 1 {
		nf := 1 + f.Draw(2)
		for i := 0; i < nf; i++ {
			fs := FaultSpec{Site: KGet, Task: f.Draw(4), Op: -1, Occ: f.Draw(5), Disk: -1}
			switch f.Draw(5) {
			case 0, 1:
				fs.Fault = FGetEIO
			case 2:
				fs.Fault = FReadEIO
				fs.Param = uint32(f.Draw(24))
			case 3:
				fs.Fault = FReadShort
				fs.Param = uint32(1 + f.Draw(7))
			case 4:
				fs.Fault = FGetPanic // the loader's own code dies; the caller recovers and carries on
			}
			switch f.Draw(4) {
			case 0, 1:
				fs.Repeat = 0
			case 2:
				fs.Repeat = 1 + f.Draw(2)
			case 3:
				fs.Repeat = -1
			}
			sp.Plan = append(sp.Plan, fs)
			anyFault = true
		}
	}
	for p := 0; p < nPhases; p++ {
		ph := c20Phase{}
		for s := 0; s < nSets; s++ {
			d := false
			if p > 0 || g.Draw(6) == 5 {
				d = g.Draw(3) == 1
			}
			ph.Debug = append(ph.Debug, d)
			ph.LStrip = append(ph.LStrip, p > 0 && g.Draw(3) == 1)
			ph.AddLoader = append(ph.AddLoader, p > 0 && g.Draw(4) == 0)
		}
		k := 1 + g.DrawD(4, 6)
		for t := 0; t < k; t++ {
			nops := 1 + g.DrawD(5, 8)
			var ops []c20Op
			for o := 0; o < nops; o++ {
				op := c20Op{Set: g.Draw(nSets), Sp: g.Draw(4)}
				switch g.Draw(9) {
				case 8:
					// the caller executes the template its last FromCache of this phase returned,
					// with a context that names another cached file to be included at run time
					op.Kind = "exec"
					op.Name = g.Draw(nNames)
				case 6:
					op.Kind = "clean"
					op.Names = []int{g.Draw(nNames)}
					if g.Draw(3) == 2 {
						op.Names = append(op.Names, g.Draw(nNames))
					}
					// now and then the call (also) names files that are not cache entries of their
					// own: what a cached template includes or extends, and a name never asked for
					switch g.Draw(8) {
					case 0:
						op.Others, op.Names = true, nil
					case 1:
						op.Others = true
					case 2:
						op.Empty, op.Names = true, nil // every name given is the empty string
					}
				case 7:
					op.Kind = "cleanall"
				default:
					op.Kind = "from"
					op.Name = g.Draw(nNames)
				}
				ops = append(ops, op)
			}
			ph.Tasks = append(ph.Tasks, ops)
		}
		nEnv := g.DrawD(4, 7)
		if nEnv == 3 {
			nEnv = 1
		}
		for e := 0; e < nEnv; e++ {
			ev := c20Env{}
			// which file: a top-level name, or its include
			ni := g.Draw(nNames)
			file := sp.Names[ni]
			isInc := false
			if sp.HasInc[ni] && g.Draw(3) == 2 {
				file = sp.second(ni)
				isInc = true
			}
			ed := 0
			if sp.NLoad == 2 && !isInc {
				ed = g.Draw(2)
			}
			ev.Disk = ed
			vers := disks[ed].Files[file]
			nv := len(vers)
			switch kd := g.Draw(6); {
			case kd == 5 && anyFault:
				ev.Kind = "heal"
			case kd == 4:
				ev.Kind = "delete"
				ev.File, ev.Ver = file, nv
				disks[ed].Files[file] = append(vers, FileVer{Absent: true})
			case kd == 3:
				ev.Kind = "corrupt"
				ev.File, ev.Ver = file, nv
				c := ""
				if isInc {
					c = c20SecondContent(file, nv, true)
				} else {
					c = c20TopContent(file, nv, ed, sp.HasInc[ni], sp.second(ni), true)
				}
				disks[ed].Files[file] = append(vers, FileVer{Content: c, Corrupt: true})
			default:
				ev.Kind = "change"
				ev.File, ev.Ver = file, nv
				c := ""
				if isInc {
					c = c20SecondContent(file, nv, false)
				} else {
					c = c20TopContent(file, nv, ed, sp.HasInc[ni], sp.second(ni), false)
					if g.Draw(6) == 0 {
						c = "" // the file is there and holds nothing: a template like any other
					}
				}
				disks[ed].Files[file] = append(vers, FileVer{Content: c})
			}
			ph.Env = append(ph.Env, ev)
		}
		sp.Phases = append(sp.Phases, ph)
	}
	return sp
}

// ---- porcupine model -------------------------------------------------------------

const c20MaxNames = 3

type c20State struct {
	cache [c20MaxNames]int16    // 0 = not cached, else id+1
	disk  [2][c20MaxNames]int16 // current version of the top-level file on each loader's disk
	stale [c20MaxNames]bool     // entry survived a Debug-on period: old entry or fresh compile both accepted
	used  [4]uint64             // ids handed out so far (bit set)
	debug bool
}

const (
	c20From = iota
	c20Clean
	c20CleanAll
	c20Disk
	c20Debug
)

type c20In struct {
	Kind int
	Disk int
	Name int
	Mask int
	Ver  int
	On   bool
}

const (
	causeNone    = iota
	causeOutside // an injected fault, or an included file that is missing/corrupt: legal failure, not modelled
	causeEnoent
	causeCompile
	causeUnexplained
)

type c20Out struct {
	ID       int // -1 on failure
	Err      bool
	Cause    int
	Ver      int  // version of the top-level file the operation was served (-1: none)
	Disk     int  // which loader's disk served it
	Fetches  int  // successful top-level Get calls made by the operation
	Attempts int  // all top-level Get calls (a miss asks the loaders in order)
	Fell     bool // an injected open error on an earlier loader made a later loader serve it
	Unstable bool // two loaders and the name changed on some disk while the operation was probing them
}

func c20Model(sp *c20Spec) porcupine.Model {
	files := func(d, name int) []FileVer {
		if d == 1 {
			return sp.Disk1.Files[sp.Names[name]]
		}
		return sp.Disk.Files[sp.Names[name]]
	}
	corrupt := func(d, name, ver int) bool {
		vs := files(d, name)
		return ver >= 0 && ver < len(vs) && vs[ver].Corrupt
	}
	absent := func(d, name, ver int) bool {
		vs := files(d, name)
		return ver < 0 || ver >= len(vs) || vs[ver].Absent
	}
	// effective: the first loader that has the name wins
	effective := func(st *c20State, name int) (int, int, bool) {
		for d := 0; d < sp.NLoad; d++ {
			if !absent(d, name, int(st.disk[d][name])) {
				return d, int(st.disk[d][name]), true
			}
		}
		return 0, -1, false
	}
	init := c20State{}
	return porcupine.Model{
		Init: func() interface{} { return init },
		Step: func(state, input, output interface{}) (bool, interface{}) {
			st := state.(c20State)
			in := input.(c20In)
			switch in.Kind {
			case c20Disk:
				st.disk[in.Disk][in.Name] = int16(in.Ver)
				return true, st
			case c20Debug:
				if st.debug && !in.On {
					// leaving a Debug-on period: existing entries may or may not have been kept
					for i := range st.cache {
						if st.cache[i] != 0 {
							st.stale[i] = true
						}
					}
				}
				st.debug = in.On
				return true, st
			case c20CleanAll:
				st.cache = [c20MaxNames]int16{}
				st.stale = [c20MaxNames]bool{}
				return true, st
			case c20Clean:
				for i := 0; i < c20MaxNames; i++ {
					if in.Mask&(1<<i) != 0 {
						st.cache[i] = 0
						st.stale[i] = false
					}
				}
				return true, st
			}
			out := output.(c20Out)
			n := in.Name
			// served: does (out.Disk, out.Ver) name what a loader stack would serve right now?
			served := func() bool {
				if out.Unstable {
					// the two loaders were asked at different moments with a change in between:
					// only "what it was served is that disk's current version" can be demanded
					return out.Ver == int(st.disk[out.Disk][n])
				}
				if ed, ev, ok := effective(&st, n); ok && out.Disk == ed && out.Ver == ev {
					return true
				}
				// an injected open error on the first loader legitimately falls through
				return out.Fell && out.Disk == 1 && out.Ver == int(st.disk[1][n]) && !absent(1, n, out.Ver)
			}
			failureLegal := func() bool {
				if out.Unstable && out.Cause != causeUnexplained {
					return true
				}
				switch out.Cause {
				case causeOutside:
					return true
				case causeEnoent:
					_, _, ok := effective(&st, n)
					return !ok || (out.Fell && absent(1, n, int(st.disk[1][n])))
				case causeCompile:
					return served() && corrupt(out.Disk, n, out.Ver)
				}
				return false
			}
			freshLegal := func() bool {
				return !out.Err && out.ID >= 0 && st.used[out.ID>>6]&(1<<uint(out.ID&63)) == 0 &&
					out.Fetches == 1 && out.Attempts <= sp.NLoad && served() && !corrupt(out.Disk, n, out.Ver)
			}
			if st.debug {
				if out.Err {
					return failureLegal(), st
				}
				if !freshLegal() {
					return false, st
				}
				st.used[out.ID>>6] |= 1 << uint(out.ID&63)
				return true, st
			}
			if st.cache[n] != 0 {
				if !out.Err && out.ID == int(st.cache[n])-1 && out.Attempts == 0 {
					return true, st // hit
				}
				if !st.stale[n] {
					return false, st
				}
				// fall through: behave as a miss (entry dropped during the Debug-on period)
			}
			if out.Err {
				if !failureLegal() {
					return false, st
				}
				if st.stale[n] {
					st.cache[n], st.stale[n] = 0, false
				}
				return true, st // failed loads are not cached
			}
			if !freshLegal() {
				return false, st
			}
			st.used[out.ID>>6] |= 1 << uint(out.ID&63)
			st.cache[n] = int16(out.ID + 1)
			st.stale[n] = false
			return true, st
		},
	}
}

// ---- run ---------------------------------------------------------------------------

type c20HistOp struct {
	Client int    `json:"client"`
	What   string `json:"what"`
	Call   uint64 `json:"call"`
	Ret    uint64 `json:"ret"`
	Out    string `json:"out,omitempty"`
	Set    int    `json:"set"`
	set    int
	in     c20In
	out    c20Out
	isFrom bool
}

func (c20Checker) Run(tp *Tapes, opt RunOpt) *Outcome {
	out := &Outcome{}
	sp := c20Gen(tp)
	nSets := len(sp.Loaders)
	w := NewWorld([]*DiskSpec{sp.Disk, sp.Disk1, {Files: map[string][]FileVer{}}}) // (disk 2: nothing on it)
	w.Plan = sp.Plan
	s := NewSched(tp.Sched, w)
	s.Strat = sp.strat
	s.KeepLog = opt.KeepLog
	w.Sched = s
	old := SetCurWorld(w)
	defer SetCurWorld(old)
	rw := newRaceWatch()

	sets := make([]*pongo2.TemplateSet, nSets)
	// (sets over the real LocalFilesystemLoader read from a throw-away directory that mirrors
	// the simulated disks, see mirrorLoader)
	mirrorRoot := ""
	for _, k := range sp.Loaders {
		if k == "localmirror" && mirrorRoot == "" {
			c11TreeSeq++
			mirrorRoot = filepath.Join(os.TempDir(), fmt.Sprintf("c20tree-%07d-%07d", os.Getpid()%10000000, c11TreeSeq%10000000))
			os.RemoveAll(mirrorRoot)
			defer os.RemoveAll(mirrorRoot)
			out.probe("real_local_loader_over_mirror")
		}
	}
	mkStack := func(id int, kind string) []pongo2.TemplateLoader {
		var ls []pongo2.TemplateLoader
		for d := 0; d < sp.NLoad; d++ {
			spec := LoaderSpec{Kind: kind, Disk: d}
			if kind == "localmirror" {
				spec.BaseDir = filepath.Join(mirrorRoot, fmt.Sprintf("d%d", d))
				os.MkdirAll(spec.BaseDir, 0o755)
			}
			ls = append(ls, w.MakeLoader(id*4+d, spec))
		}
		return ls
	}
	sharedLoaders := mkStack(0, sp.Loaders[0])
	for i := range sets {
		l := sharedLoaders
		if !sp.Shared {
			l = mkStack(i, sp.Loaders[i])
		}
		setName := fmt.Sprintf("S%d", i)
		if sp.SameSetName {
			setName = "S" // a set's name is a label; two sets may well carry the same one
		}
		sets[i] = pongo2.NewSet(setName, l...)
		sets[i].Globals["setname"] = fmt.Sprintf("S%d", i)
		sets[i].Globals[fmt.Sprintf("g%d", i)] = fmt.Sprintf("G%d", i)
		// distinguishing configuration per set (isolation oracle): bans and an option
		if err := sets[i].BanTag([]string{"lorem", "templatetag"}[i%2]); err != nil {
			out.HarnessErr = "BanTag on a fresh set failed: " + err.Error()
			return out
		}
		if err := sets[i].BanFilter([]string{"upper", "lower"}[i%2]); err != nil {
			// (a set must be able to ban what another set has banned before)
			out.addViolation("cross_set_config", "bans", fmt.Sprintf("BanFilter on the fresh set S%d failed: %v", i, err), nil, err.Error())
		}
		sets[i].Options.TrimBlocks = i%2 == 0 && !sp.OptsOnTpl
	}
	var hist []c20HistOp
	type opKey struct{ task, op int }
	results := map[opKey]*c20Res{}
	opSpec := map[opKey]c20Op{}
	debugNow := make([]bool, nSets)
	crossBlock := ""

	for pi, ph := range sp.Phases {
		for si := range sets {
			sets[si].Options.LStripBlocks = ph.LStrip[si]
			if ph.AddLoader[si] {
				sets[si].AddLoader(w.MakeLoader(64+si*8+pi, LoaderSpec{Kind: "virt", Disk: 2}))
				out.probe("loader_added_between_phases")
			}
			if ph.Debug[si] != debugNow[si] {
				c := s.NextSeq()
				sets[si].Debug = ph.Debug[si]
				debugNow[si] = ph.Debug[si]
				r := s.NextSeq()
				hist = append(hist, c20HistOp{Client: maxTasks, What: fmt.Sprintf("S%d.Debug=%v", si, ph.Debug[si]), Call: c, Ret: r, set: si, in: c20In{Kind: c20Debug, On: ph.Debug[si]}})
				if ph.Debug[si] {
					out.probe("debug_on_phase")
				}
			}
		}
		env := ph.Env
		w.EnvFn = func(seq uint64, i int) {
			ev := env[i]
			r := s.NextSeq()
			switch ev.Kind {
			case "heal":
				w.Healed = true
				out.probe("heal")
				return
			default:
				w.SetVersion(ev.Disk, ev.File, ev.Ver)
			}
			for ni, n := range sp.Names {
				if n == ev.File {
					for si := range sets {
						hist = append(hist, c20HistOp{Client: maxTasks + 1, What: fmt.Sprintf("disk%d:%s %s->v%d", ev.Disk, ev.Kind, ev.File, ev.Ver), Call: seq, Ret: r, set: si, in: c20In{Kind: c20Disk, Disk: ev.Disk, Name: ni, Ver: ev.Ver}})
					}
				}
			}
		}
		// a cache lock that is found taken must be held by an operation on the very same set:
		// the sets' caches have nothing to do with one another (scheduler goroutine)
		w.LockWaitFn = func(t, opi int) {
			mine, ok := opSpec[opKey{t, opi}]
			if !ok || crossBlock != "" {
				return
			}
			for ot := range ph.Tasks {
				if ot == t || w.inOp[ot] < 0 {
					continue
				}
				if other, ok := opSpec[opKey{ot, w.inOp[ot]}]; ok && other.Set == mine.Set && other.Kind != "exec" {
					return // somebody is inside a cache operation of this set: fair enough
				}
			}
			crossBlock = fmt.Sprintf("task %d found the cache lock of set S%d taken although no other task is inside a cache operation of that set", t, mine.Set)
		}
		bodies := make([]func(*TaskCtx), len(ph.Tasks))
		locals := make([]any, len(ph.Tasks))
		for ti, ops := range ph.Tasks {
			ops := ops
			res := make([]*c20Res, len(ops))
			locals[ti] = res
			base := pi * 16
			for oi, op := range ops {
				opSpec[opKey{ti, base + oi}] = op
			}
			bodies[ti] = func(tc *TaskCtx) {
				var lastTpl *pongo2.Template
				for oi, op := range ops {
					r := &c20Res{}
					res[oi] = r
					w.OpBegin(base + oi)
					func() {
						defer func() {
							if p := recover(); p != nil {
								r.pan = fmt.Sprint(p)
							}
						}()
						set := sets[op.Set]
						switch op.Kind {
						case "from":
							t, err := set.FromCache(sp.spelling(op.Set, op.Name, op.Sp))
							r.tpl = t
							r.err = errStr(err)
						case "clean":
							var ns []string
							for _, n := range op.Names {
								ns = append(ns, sp.spelling(op.Set, n, op.Sp))
							}
							if op.Empty {
								ns = append(ns, "", "")
							}
							if op.Others {
								ns = append(ns, "never-asked-for.tpl", "")
								for ni := range sp.Names {
									if sp.HasInc[ni] {
										ns = append(ns, sp.second(ni))
									}
								}
							}
							set.CleanCache(ns...)
						case "cleanall":
							set.CleanCache()
						case "exec":
							if lastTpl != nil {
								lastTpl.Execute(pongo2.Context{"ln": sp.spelling(op.Set, op.Name, op.Sp)})
							}
						}
						if op.Kind == "from" && r.tpl != nil {
							lastTpl = r.tpl
						}
					}()
					w.OpEnd(base + oi)
				}
			}
		}
		tcs := s.RunPhase(bodies, locals, len(env))
		if s.Deadlock {
			out.addViolation("deadlock", "cache-lock", "no task can make progress: all remaining tasks wait for the cache lock", nil, c20Sample(sp, hist))
			break
		}
		if s.Overrun {
			out.HarnessErr = "step budget exceeded"
			break
		}
		for ti, tc := range tcs {
			if tc.Panic != "" {
				out.HarnessErr = "task body panicked outside an operation: " + tc.Panic
			}
			for oi, r := range tc.Local.([]*c20Res) {
				if r != nil {
					results[opKey{ti, pi*16 + oi}] = r
				}
			}
		}
	}
	out.Steps = s.Steps
	out.TraceHash = uint64(s.Trace)
	out.Log = s.Log
	if crossBlock != "" && !sp.Shared {
		out.addViolation("cross_set_blocking", "cache-lock", crossBlock, nil, nil)
	}

	// ---- assemble the history ---------------------------------------------------
	if !s.Deadlock && out.HarnessErr == "" {
		ids := map[*pongo2.Template]int{}
		idSet := map[int]int{}
		type created struct {
			key opKey
			set int
		}
		creators := map[int]created{}
		stamps := append([]OpStamp(nil), w.Stamps...)
		sort.Slice(stamps, func(i, j int) bool { return stamps[i].Ret < stamps[j].Ret })
		getsOf := func(task, op int) []GetRec {
			var g []GetRec
			for _, r := range w.Gets {
				if r.Task == task && r.Op == op {
					g = append(g, r)
				}
			}
			return g
		}
		for _, st := range stamps {
			k := opKey{st.Task, st.Op}
			op := opSpec[k]
			r := results[k]
			out.Execs++
			if op.Kind == "exec" {
				out.probe("execute_with_runtime_include")
				continue // executing a template is not a cache operation: nothing for the model
			}
			h := c20HistOp{Client: st.Task, Call: st.Call, Ret: st.Ret, set: op.Set}
			switch op.Kind {
			case "clean":
				mask := 0
				for _, n := range op.Names {
					mask |= 1 << n
				}
				h.What = fmt.Sprintf("S%d.CleanCache(%v)", op.Set, op.Names)
				h.in = c20In{Kind: c20Clean, Mask: mask}
			case "cleanall":
				h.What = fmt.Sprintf("S%d.CleanCache()", op.Set)
				h.in = c20In{Kind: c20CleanAll}
			case "from":
				h.isFrom = true
				h.What = fmt.Sprintf("S%d.FromCache(%s)", op.Set, sp.Names[op.Name])
				h.in = c20In{Kind: c20From, Name: op.Name}
				o := c20Out{ID: -1, Ver: -1}
				gets := getsOf(st.Task, st.Op)
				top := sp.Names[op.Name]
				outside := false
				openErrEarlier, enoents := false, 0
				incServed := false
				for _, g := range gets {
					if g.Path == top {
						o.Attempts++
						switch {
						case g.Fault == FReadEIO:
							outside = true // the loader had it, reading failed: the load fails
							o.Ver, o.Disk = g.Ver, g.Disk
						case g.Ver >= 0:
							o.Fetches++
							o.Ver, o.Disk = g.Ver, g.Disk
							if openErrEarlier && g.Disk > 0 {
								o.Fell = true
							}
						case g.Fault == FGetEIO:
							openErrEarlier = true
						case g.Fault == FGetPanic:
							outside = true
						case g.Fault == FGetEnoent:
							enoents++
						}
					} else {
						// an included file: it lives on the first disk; not part of the model
						switch {
						case g.Fault == FGetEIO || g.Fault == FReadEIO || g.Fault == FGetPanic:
							outside = true
						case g.Ver >= 0:
							incServed = true
							if w.disks[g.Disk].spec.Files[g.Path][g.Ver].Corrupt {
								outside = true
							}
						}
					}
				}
				if sp.HasInc[op.Name] && o.Fetches > 0 && !incServed {
					outside = true // the included file could not be obtained from any loader
				}
				if o.Fetches == 0 && !outside {
					if openErrEarlier {
						outside = true // an injected open error and no loader served the name: the load may fail
					} else if enoents > 0 {
						o.Cause = causeEnoent
					}
				}
				if r.pan != "" && strings.Contains(r.pan, "sim: injected panic") {
					// the loader died inside Get and the caller recovered: a failed load like any other
					o.Err, o.Cause = true, causeOutside
					out.probe("loader_panic_recovered")
				} else if r.pan != "" {
					out.addViolation("panic", "FromCache", "FromCache panicked: "+r.pan, nil, nil)
					o.Err, o.Cause = true, causeUnexplained
				} else if r.err != "" || r.tpl == nil {
					o.Err = true
					out.probe("failed_load")
					switch {
					case outside:
						o.Cause = causeOutside
					case o.Cause == causeEnoent:
					case o.Ver >= 0:
						o.Cause = causeCompile
					default:
						o.Cause = causeUnexplained
					}
				} else {
					o.Cause = causeNone
					id, seen := ids[r.tpl]
					if !seen {
						id = len(ids)
						ids[r.tpl] = id
						idSet[id] = op.Set
					}
					if _, has := creators[id]; !has && o.Ver >= 0 {
						creators[id] = created{k, op.Set} // the operation whose fetch produced it
					}
					if seen && idSet[id] != op.Set {
						out.addViolation("cross_set_identity", "FromCache", fmt.Sprintf("sets S%d and S%d returned the same *Template", idSet[id], op.Set), nil, nil)
					}
					o.ID = id
					if o.Attempts == 0 {
						out.probe("hit")
					} else {
						out.probe("miss")
					}
				}
				h.out = o
				h.Out = fmt.Sprintf("id=%d err=%v cause=%d ver=%d@%d fetches=%d/%d fell=%v", o.ID, o.Err, o.Cause, o.Ver, o.Disk, o.Fetches, o.Attempts, o.Fell)
				if r.err != "" {
					h.Out += " msg=" + r.err
				}
			}
			hist = append(hist, h)
		}
		sort.SliceStable(hist, func(i, j int) bool { return hist[i].Call < hist[j].Call })
		for _, h := range hist {
			if mirrorRoot != "" {
				out.dig(h.What, strings.ReplaceAll(h.Out, mirrorRoot, "$ROOT"))
			} else {
				out.dig(h.What, h.Out)
			}
		}

		if sp.NLoad == 2 {
			for i := range hist {
				if !hist[i].isFrom {
					continue
				}
				for _, e := range hist {
					if e.in.Kind == c20Disk && e.in.Name == hist[i].in.Name && e.Call > hist[i].Call && e.Call < hist[i].Ret {
						hist[i].out.Unstable = true
					}
				}
			}
		}
		// reach probes over the history
		c20Probes(out, sp, hist, w)

		// ---- oracle 1: linearizability per set --------------------------------------
		if len(ids) > 250 {
			out.HarnessErr = "too many template ids for the model bitmask"
		}
		model := c20Model(sp)
		for si := 0; si < nSets && out.HarnessErr == ""; si++ {
			var ops []porcupine.Operation
			var sub []c20HistOp
			for _, h := range hist {
				if h.set != si {
					continue
				}
				sub = append(sub, h)
				ops = append(ops, porcupine.Operation{ClientId: h.Client, Input: h.in, Output: h.out, Call: int64(h.Call), Return: int64(h.Ret)})
			}
			if len(ops) == 0 {
				continue
			}
			res := porcupine.CheckOperationsTimeout(model, ops, 30*time.Second)
			switch res {
			case porcupine.Ok:
				out.Porcupine[0]++
			case porcupine.Unknown:
				out.Porcupine[2]++
			case porcupine.Illegal:
				out.Porcupine[1]++
				key := c20FirstIllegal(model, sub)
				out.addViolation("lin_illegal", key, fmt.Sprintf("history of set S%d is not linearizable w.r.t. the cache model", si), nil, c20Sample(sp, sub))
			}
		}

		// ---- oracle: bans and options of one set never leak into another -------------------
		if out.HarnessErr == "" {
			for si, set := range sets {
				for bi, src := range []string{"{% lorem 1 w %}", "{% templatetag openblock %}", `{{ "x"|upper }}`, `{{ "x"|lower }}`, "{% firstof 1 %}", `{{ "x"|title }}`} {
					if bi >= 4 {
						bi = -1 // banned in the package's DefaultSet only: must compile in every other set
					} else {
						bi %= 2
					}
					_, err := set.FromString(src)
					wantErr := bi == si%2
					if (err != nil) != wantErr {
						out.addViolation("cross_set_config", "bans", fmt.Sprintf("set S%d: compiling %q gave error=%v, expected error=%v (each set banned a different tag)", si, src, err, wantErr), wantErr, err != nil)
					}
				}
				t, err := set.FromString("{% if true %}\nX{% endif %}")
				if err == nil {
					got, _ := t.Execute(nil)
					want := "\nX"
					if si%2 == 0 && !sp.OptsOnTpl {
						want = "X"
					}
					if got != want {
						out.addViolation("cross_set_config", "options", fmt.Sprintf("set S%d renders %q, expected %q (TrimBlocks differs per set)", si, got, want), want, got)
					}
				}
			}
		}

		// ---- oracle: a returned template renders exactly what its compile fetched ------
		if out.HarnessErr == "" {
			tplByID := make([]*pongo2.Template, len(ids))
			for t, id := range ids {
				tplByID[id] = t
			}
			for id, t := range tplByID {
				cr, has := creators[id]
				if !has {
					continue // no operation fetched it: the history check has already objected
				}
				op := opSpec[cr.key]
				topVer, topDisk, incVer := -1, 0, -1
				for _, g := range getsOf(cr.key.task, cr.key.op) {
					if g.Ver < 0 {
						continue
					}
					if g.Path == sp.Names[op.Name] {
						topVer, topDisk = g.Ver, g.Disk
					} else {
						incVer = g.Ver
					}
				}
				exp := fmt.Sprintf("[%sv%d@%d:S%dG%d]", sp.Names[op.Name], topVer, topDisk, cr.set, cr.set)
				if cr.set%2 == 0 {
					exp += "T" // this set has TrimBlocks on
				} else {
					exp += "\nT"
				}
				if sp.HasInc[op.Name] && sp.Ext[op.Name] {
					exp = fmt.Sprintf("(basev%d:%s)", incVer, exp)
				} else if sp.HasInc[op.Name] {
					exp += fmt.Sprintf("(inc%dv%d)", op.Name, incVer)
				}
				if topVer >= 0 && w.disks[topDisk].spec.Files[sp.Names[op.Name]][topVer].Content == "" {
					exp = "" // an empty file renders nothing (and pulls nothing in)
				}
				nGets := len(w.Gets)
				// two executions the engine rejects up front (invalid key, clash with an exported
				// macro), then the real one: nothing of a set or of a rejected caller may stay behind
				if sp.OptsOnTpl && cr.set%2 == 0 {
					t.Options.TrimBlocks = true
				}
				t.Execute(pongo2.Context{"bad-key": "v", "g0": "LEAK", "g1": "LEAK"})
				t.Execute(pongo2.Context{"cm": "v", "g0": "LEAK", "g1": "LEAK"})
				got, err := t.Execute(nil)
				if mirrorRoot != "" {
					out.dig(got, strings.ReplaceAll(errStr(err), mirrorRoot, "$ROOT"))
				} else {
					out.dig(got, errStr(err))
				}
				if err != nil || got != exp {
					cls := "wrong_content"
					if err == nil && strings.Contains(got, ":S") && !strings.Contains(got, fmt.Sprintf(":S%dG%d]", cr.set, cr.set)) {
						cls = "cross_set_config"
					}
					out.addViolation(cls, "FromCache", fmt.Sprintf("template id %d renders %q (err %v), its compile fetched content rendering %q", id, got, err, exp), exp, got)
				}
				if len(w.Gets) != nGets {
					out.addViolation("hit_touched_loader", "Execute", "executing a cached template fetched from the loader", nil, nil)
				}
			}
			// once more after the returned templates have been configured and executed: what a set
			// compiles now still follows that set's own options
			for si, set := range sets {
				if t, err := set.FromString("{% if true %}\nX{% endif %}"); err == nil {
					got, _ := t.Execute(nil)
					want := "\nX"
					if si%2 == 0 && !sp.OptsOnTpl {
						want = "X"
					}
					if got != want {
						out.addViolation("cross_set_config", "options", fmt.Sprintf("set S%d renders %q, expected %q (options configured on other templates or sets must not matter)", si, got, want), want, got)
					}
				}
			}
		}
	}

	if n, text := rw.delta(); n > 0 && !s.Deadlock {
		out.RaceCount = n
		keys := raceKeys(text)
		if len(keys) == 0 {
			keys = []string{"?"}
		}
		for _, k := range keys {
			out.addViolation("race", k, "data race reported by the race detector during this run", nil, text)
		}
	}
	out.RaceRun = RaceEnabled
	out.mergeWorld(w)
	ph := newHasher()
	ph.str(fmt.Sprintf("%v%v", sp.Names, sp.Spell))
	ph.str(fmt.Sprintf("%+v", sp.Phases))
	ph.str(fmt.Sprintf("%v%v%v%d%v%v", sp.Loaders, sp.HasInc, sp.Shared, sp.NLoad, sp.Ext, sp.SameSetName))
	out.ProgHash = uint64(ph)
	th := hasher(out.TraceHash)
	th.u64(out.ProgHash)
	for _, k := range sortedKeys(w.Fired) {
		th.str(k)
		th.u64(uint64(w.Fired[k]))
	}
	out.TraceHash = uint64(th)
	envCount := 0
	for _, p := range sp.Phases {
		envCount += len(p.Env)
	}
	firedTotal := 0
	for _, v := range w.Fired {
		firedTotal += v
	}
	out.NonTrivial = s.Preempts > 0 || s.LockBlocks > 0 || envCount > 0 || firedTotal > 0
	if opt.Sample || len(out.Violations) > 0 {
		out.Sample = c20Sample(sp, hist)
	}
	return out
}

func c20Sample(sp *c20Spec, hist []c20HistOp) any {
	return map[string]any{"spec": sp, "history": hist}
}

// c20FirstIllegal finds the shortest prefix (by return order) of the history that is
// not linearizable and names the operation that completes it.
func c20FirstIllegal(model porcupine.Model, sub []c20HistOp) string {
	byRet := append([]c20HistOp(nil), sub...)
	sort.SliceStable(byRet, func(i, j int) bool { return byRet[i].Ret < byRet[j].Ret })
	for n := 1; n <= len(byRet); n++ {
		var ops []porcupine.Operation
		for _, h := range byRet[:n] {
			ops = append(ops, porcupine.Operation{ClientId: h.Client, Input: h.in, Output: h.out, Call: int64(h.Call), Return: int64(h.Ret)})
		}
		if porcupine.CheckOperationsTimeout(model, ops, 10*time.Second) == porcupine.Illegal {
			h := byRet[n-1]
			if !h.isFrom {
				return "after " + strings.SplitN(strings.SplitN(h.What, ".", 2)[1], "(", 2)[0]
			}
			shape := "fresh"
			switch {
			case h.out.Err:
				shape = "error"
			case h.out.Fetches == 0:
				shape = "hit"
			}
			return "FromCache " + shape
		}
	}
	return "FromCache"
}

func c20Probes(out *Outcome, sp *c20Spec, hist []c20HistOp, w *World) {
	overlap := func(a, b c20HistOp) bool { return a.Call < b.Ret && b.Call < a.Ret }
	changed := map[int]bool{}
	failedThenHealed := map[[2]int]bool{}
	for i, a := range hist {
		if a.in.Kind == c20Disk {
			changed[a.in.Name] = true
		}
		if !a.isFrom {
			continue
		}
		if a.out.Err && a.out.Cause == causeOutside {
			failedThenHealed[[2]int{a.set, a.in.Name}] = true
		}
		if !a.out.Err && a.out.Fetches == 0 && changed[a.in.Name] {
			out.probe("hit_after_content_change")
		}
		if !a.out.Err && failedThenHealed[[2]int{a.set, a.in.Name}] {
			out.probe("failed_then_healed_then_cached")
			delete(failedThenHealed, [2]int{a.set, a.in.Name})
		}
		for j, b := range hist {
			if i == j || !overlap(a, b) || a.set != b.set {
				if a.set != b.set && b.isFrom && a.in.Name == b.in.Name && j > i {
					out.probe("two_sets_same_name")
				}
				continue
			}
			if b.isFrom && j > i && a.in.Name == b.in.Name && (a.out.Fetches > 0 || b.out.Fetches > 0) {
				out.probe("concurrent_miss_same_name")
			}
			if (b.in.Kind == c20Clean || b.in.Kind == c20CleanAll) && a.out.Fetches > 0 {
				out.probe("cleancache_overlapping_miss")
			}
		}
	}
	for _, g := range w.Gets {
		if g.Fault == FGetEIO || g.Fault == FReadEIO {
			out.probe("fault_inside_critical_section")
		}
	}
}
