package sim

import (
	"bytes"
	"fmt"
	"sort"
	"strings"

	pongo2 "github.com/flosch/pongo2/v6"
)

// Shared by C04, C05 and C14: building a set over a program's files and executing
// one of the entry points with a recording writer.

const (
	EpExecute = iota
	EpExecuteBytes
	EpExecuteWriter
	EpExecuteWriterUnbuffered
	EpExecuteBlocks
)

var epNames = [...]string{"Execute", "ExecuteBytes", "ExecuteWriter", "ExecuteWriterUnbuffered", "ExecuteBlocks"}

func progDisk(sp *ProgSpec) []*DiskSpec {
	d := &DiskSpec{Files: map[string][]FileVer{}}
	for _, k := range sortedKeys(sp.Files) {
		d.Files[k] = []FileVer{{Content: sp.Files[k]}}
	}
	if !sp.TwoLoaders {
		return []*DiskSpec{d}
	}
	// a stack of two loaders: inc1.tpl exists only behind the second one, which also holds
	// a copy of inc0.tpl with other content - never visible, the first loader that has a
	// name wins
	d2 := &DiskSpec{Files: map[string][]FileVer{}}
	if c, ok := sp.Files["inc1.tpl"]; ok {
		delete(d.Files, "inc1.tpl")
		d2.Files["inc1.tpl"] = []FileVer{{Content: c}}
	}
	d2.Files["inc0.tpl"] = []FileVer{{Content: "(SHADOWED-i0:{{ s1 }})"}}
	d2.Files["base.tpl"] = []FileVer{{Content: "SHADOWED-BASE[{% block b1 %}{% endblock %}{% block b2 %}{% endblock %}]"}}
	return []*DiskSpec{d, d2}
}

// NewProgSet creates a set over disk 0 of the world with the program's options.
func (w *World) NewProgSet(sp *ProgSpec, name, loaderKind string) *pongo2.TemplateSet {
	set := pongo2.NewSet(name, w.MakeLoader(0, LoaderSpec{Kind: loaderKind, Disk: 0}))
	if sp.TwoLoaders {
		set.AddLoader(w.MakeLoader(1, LoaderSpec{Kind: loaderKind, Disk: 1}))
	}
	if !sp.OptsOnTemplate {
		set.Options.TrimBlocks = sp.TrimBlocks
		set.Options.LStripBlocks = sp.LStripBlocks
	}
	if !sp.NoGlobals {
		set.Globals["glob"] = "G<" + name + ">"
	}
	set.Debug = sp.DebugSet
	if sp.BadGlobal {
		set.Globals["bad-global"] = "a name that is not an identifier"
	}
	return set
}

// blockSel varies the list of block names an ExecuteBlocks call asks for: all of them, the
// first one only, or the last one plus a name no template defines.
func blockSel(blocks []string, sel int) []string {
	if len(blocks) == 0 {
		return blocks
	}
	switch sel % 3 {
	case 1:
		return blocks[:1]
	case 2:
		return []string{blocks[len(blocks)-1], "no_such_block"}
	}
	return blocks
}

// reuseBuffer: the []byte handed to FromBytes / RenderTemplateBytes stays the caller's, who
// uses it for something else as soon as the call has returned.
func reuseBuffer(b []byte) {
	for i := range b {
		b[i] = 'Z'
	}
}

// ApplyTplOptions is what a caller does who configures the options per template: it
// must happen before the template is shared with other goroutines.
func (sp *ProgSpec) ApplyTplOptions(tpl *pongo2.Template) {
	if sp.OptsOnTemplate && tpl != nil {
		tpl.Options.TrimBlocks = sp.TrimBlocks
		tpl.Options.LStripBlocks = sp.LStripBlocks
	}
}

type ExecResult struct {
	Ep      int    `json:"-"`
	Entry   string `json:"entry"`
	Out     string `json:"out"`     // returned output (Execute/ExecuteBytes/ExecuteBlocks), or bytes accepted by the writer
	Err     string `json:"err"`     // error text ("" = nil)
	Panic   string `json:"panic"`   // panic escaping the entry point
	Written string `json:"written"` // bytes accepted by the caller's writer
	WCalls  int    `json:"wcalls"`
	WFailed bool   `json:"wfailed"`
	Cbs     int    `json:"cbs"`
	Alias   string `json:"alias,omitempty"` // an earlier ExecuteBytes result changed under the caller's feet
	err     error
	werr    error // the error the caller's writer failed with
}

func (r *ExecResult) Failed() bool { return r.Err != "" || r.Panic != "" }

// Same compares what a caller can observe.
func (r *ExecResult) Same(o *ExecResult) bool {
	return r.Out == o.Out && r.Err == o.Err && firstLine(r.Panic) == firstLine(o.Panic) && r.Written == o.Written && r.Alias == o.Alias
}

func firstLine(s string) string {
	if i := strings.IndexByte(s, '\n'); i >= 0 {
		return s[:i]
	}
	return s
}

func (r *ExecResult) String() string {
	if r.Alias != "" {
		return fmt.Sprintf("%s: out=%q err=%q panic=%q written=%q ALIAS=%s", r.Entry, r.Out, r.Err, firstLine(r.Panic), r.Written, r.Alias)
	}
	return fmt.Sprintf("%s: out=%q err=%q panic=%q written=%q", r.Entry, r.Out, r.Err, firstLine(r.Panic), r.Written)
}

// Exec runs one entry point of tpl with ctx. Panics are caught and reported.
func (w *World) Exec(tpl *pongo2.Template, ep int, ctx pongo2.Context, blocks []string) (res *ExecResult) {
	res = &ExecResult{Ep: ep, Entry: epNames[ep]}
	l := w.local()
	l.cbCount = 0
	var sw *SimWriter
	defer func() {
		if p := recover(); p != nil {
			res.Panic = fmt.Sprintf("%v\n%s", p, pongoFrames(shortStack()))
		}
		res.Cbs = l.cbCount
		// the caller's own function `mut` edits the caller's map while it is being rendered;
		// the caller puts it back afterwards (read first: a map shared by tasks is never written)
		if v, ok := ctx["mutk"]; ok && v != "M0" {
			ctx["mutk"] = "M0"
		}
		// byte slices handed out by earlier ExecuteBytes calls belong to the caller
		for i, rb := range l.retained {
			if string(rb.b) != rb.copy {
				res.Alias = fmt.Sprintf("result %d of ExecuteBytes was %q and now reads %q", i, clip(rb.copy, 60), clip(string(rb.b), 60))
				break
			}
		}
		if sw != nil {
			res.Written = string(sw.Got)
			res.WCalls = sw.Calls
			res.WFailed = sw.Failed
			res.werr = sw.Err
		}
	}()
	switch ep {
	case EpExecute:
		s, err := tpl.Execute(ctx)
		res.Out, res.err = s, err
	case EpExecuteBytes:
		b, err := tpl.ExecuteBytes(ctx)
		res.Out, res.err = string(b), err
		// the returned slice is the caller's: callers do write into it (here: every other
		// result is overwritten in place), and whatever they leave in it must stay as they left it
		l.nBytesResults++
		if l.nBytesResults%2 == 0 {
			for i := range b {
				b[i] = '#'
			}
		}
		if len(b) > 0 && len(l.retained) < 8 {
			l.retained = append(l.retained, retainedBytes{b: b, copy: string(b)})
		}
	case EpExecuteWriter:
		sw = w.NewWriter()
		res.err = tpl.ExecuteWriter(ctx, w.CallerWriter(sw))
		sw.Collect()
	case EpExecuteWriterUnbuffered:
		sw = w.NewWriter()
		res.err = tpl.ExecuteWriterUnbuffered(ctx, w.CallerWriter(sw))
		sw.Collect()
	case EpExecuteBlocks:
		m, err := tpl.ExecuteBlocks(ctx, blocks)
		res.err = err
		var bb bytes.Buffer
		ks := make([]string, 0, len(m))
		for k := range m {
			ks = append(ks, k)
		}
		sort.Strings(ks)
		for _, k := range ks {
			fmt.Fprintf(&bb, "[%s]=%s;", k, m[k])
		}
		res.Out = bb.String()
	}
	res.Err = errStr(res.err)
	return res
}

type retainedBytes struct {
	b    []byte
	copy string
}

func clip(s string, n int) string {
	if len(s) > n {
		return s[:n] + "..."
	}
	return s
}

// pongoFrames keeps the pongo2 function names of a stack dump (for violation keys).
func pongoFrames(stack string) string {
	var fr []string
	for _, ln := range strings.Split(stack, "\n") {
		if strings.HasPrefix(ln, "github.com/flosch/pongo2") {
			fn := ln
			if i := strings.LastIndex(fn, "/"); i >= 0 {
				fn = fn[i+1:]
			}
			if i := strings.LastIndex(fn, "("); i > 0 {
				fn = fn[:i]
			}
			fr = append(fr, fn)
			if len(fr) >= 4 {
				break
			}
		}
	}
	return strings.Join(fr, " < ")
}

func panicKey(p string) string {
	lines := strings.SplitN(p, "\n", 2)
	if len(lines) == 2 && lines[1] != "" {
		return strings.SplitN(lines[1], " < ", 2)[0]
	}
	return "?"
}
