// astyield instruments a scratch copy of the pongo2 sources for the simulator:
//
//   - before every statement of every function body a call verifYieldPoint() is
//     inserted, so that the seeded scheduler can pre-empt a task between any two
//     statements (also inside code that a change under test has just added);
//
//   - before every X.Lock() / X.RLock() statement that is not already announced by a
//     verifPoint(...) line, a call verifAutoLock(tryLock, unlock) is inserted, so that a
//     task which would block on a lock the scheduler does not know about parks instead.
//
//   - regions whose statement count depends on Go's randomised map iteration order are
//     bracketed with verifNoYield(+1/-1) - calls into package sort (the number of
//     comparisons depends on the order of the input, which for map keys is random) and
//     `for ... range <map>` loops (an early exit is reached after a random number of
//     iterations) - so that statements executed in there are neither counted nor
//     pre-empted, and "the n-th statement of this task" is the same in every process.
//
// It only ever writes into the scratch directory given on the command line; /repo is
// never touched. Usage: astyield <dir>
package main

import (
	"bytes"
	"fmt"
	"go/ast"
	"go/build/constraint"
	"go/format"
	"go/importer"
	"go/parser"
	"go/token"
	"go/types"
	"os"
	"path/filepath"
	"strings"
)

const support = `//go:build verif

package pongo2

// Added to the scratch copy by /verif/sim/cmd/astyield.

// VerifYield, when set, is called between any two statements of the engine.
var VerifYield func()

func verifYieldPoint() {
	if f := VerifYield; f != nil {
		f()
	}
}

// VerifHot, when set, is called instead of VerifYield before a statement that performs an
// atomic operation: where code synchronises through atomics, the interleavings that matter
// sit between two of them, so the scheduler pre-empts there far more eagerly.
var VerifHot func()

func verifHotPoint() {
	if f := VerifHot; f != nil {
		f()
	}
}

// VerifNoYield, when set, brackets a call that runs caller code under a lock of the
// standard library (sync.Once.Do): a task parked in there would make every other task
// that reaches the same Once block for real, behind the scheduler's back.
var VerifNoYield func(delta int)

func verifNoYield(delta int) {
	if f := VerifNoYield; f != nil {
		f(delta)
	}
}

// VerifAutoLock, when set, is called before a Lock()/RLock() the sources do not announce
// with verifPoint: try reports whether the lock could be taken right now, unlock undoes it.
var VerifAutoLock func(try func() bool, unlock func())

func verifAutoLock(try func() bool, unlock func()) {
	if f := VerifAutoLock; f != nil {
		f(try, unlock)
	}
}
`

func main() {
	if len(os.Args) != 2 {
		fmt.Fprintln(os.Stderr, "usage: astyield <dir>")
		os.Exit(2)
	}
	dir := os.Args[1]
	files, _ := filepath.Glob(filepath.Join(dir, "*.go"))
	nYield, nLock := 0, 0
	fset := token.NewFileSet()
	type parsed struct {
		name string
		f    *ast.File
	}
	var todo []parsed
	var checked []*ast.File
	for _, fn := range files {
		base := filepath.Base(fn)
		if strings.HasSuffix(base, "_test.go") || base == "verif_astyield.go" {
			continue
		}
		f, err := parser.ParseFile(fset, fn, nil, parser.ParseComments)
		if err != nil {
			fmt.Fprintln(os.Stderr, "astyield: parse:", err)
			os.Exit(2)
		}
		if buildTagsOK(f) {
			checked = append(checked, f)
		}
		if strings.HasPrefix(base, "verif_") {
			continue
		}
		todo = append(todo, parsed{fn, f})
	}
	// type information is used for one thing only: telling a range over a map from a
	// range over anything else. If the tree under test does not type-check here, map
	// ranges are simply not bracketed (a little less determinism, nothing else).
	if sf, err := parser.ParseFile(fset, "verif_astyield.go", support, 0); err == nil {
		checked = append(checked, sf)
	}
	info = &types.Info{Types: map[ast.Expr]types.TypeAndValue{}}
	conf := types.Config{Importer: importer.ForCompiler(fset, "source", nil), Error: func(error) {}}
	if _, err := conf.Check("pongo2", fset, checked, info); err != nil {
		fmt.Fprintln(os.Stderr, "astyield: note: type check incomplete:", err)
	}
	for _, pf := range todo {
		fn, f := pf.name, pf.f
		// comments would be misplaced by the insertions and are not needed in the copy
		// (build constraints are kept: they sit above the package clause)
		var keep []*ast.CommentGroup
		for _, cg := range f.Comments {
			if cg.End() < f.Package && strings.Contains(cg.Text(), "go:build") || (cg.End() < f.Package && hasBuildLine(cg)) {
				keep = append(keep, cg)
			}
		}
		f.Comments = keep
		ast.Inspect(f, func(n ast.Node) bool {
			switch x := n.(type) {
			case *ast.FuncDecl:
				x.Doc = nil
			case *ast.GenDecl:
				x.Doc = nil
			case *ast.Field:
				x.Doc, x.Comment = nil, nil
			case *ast.ValueSpec:
				x.Doc, x.Comment = nil, nil
			case *ast.TypeSpec:
				x.Doc, x.Comment = nil, nil
			case *ast.ImportSpec:
				x.Doc, x.Comment = nil, nil
			}
			return true
		})
		ast.Inspect(f, func(n ast.Node) bool {
			switch x := n.(type) {
			case *ast.SwitchStmt:
				clauseOnly[x.Body] = true
			case *ast.TypeSwitchStmt:
				clauseOnly[x.Body] = true
			case *ast.SelectStmt:
				clauseOnly[x.Body] = true
			case *ast.BlockStmt:
				if generated[x] {
					return false
				}
				if clauseOnly[x] {
					return true // its list holds case clauses, not statements
				}
				x.List = instrument(x.List, &nYield, &nLock)
			case *ast.CaseClause:
				x.Body = instrument(x.Body, &nYield, &nLock)
			case *ast.CommClause:
				x.Body = instrument(x.Body, &nYield, &nLock)
			}
			return true
		})
		var buf bytes.Buffer
		if err := format.Node(&buf, fset, f); err != nil {
			fmt.Fprintln(os.Stderr, "astyield: print:", err)
			os.Exit(2)
		}
		if err := os.WriteFile(fn, buf.Bytes(), 0o644); err != nil {
			fmt.Fprintln(os.Stderr, "astyield:", err)
			os.Exit(2)
		}
	}
	if err := os.WriteFile(filepath.Join(dir, "verif_astyield.go"), []byte(support), 0o644); err != nil {
		fmt.Fprintln(os.Stderr, "astyield:", err)
		os.Exit(2)
	}
	fmt.Printf("astyield: %d yield points, %d lock announcements, %d sort calls and %d map ranges bracketed, %d hot points in %s\n", nYield, nLock, nSort, nMapRange, nHot, dir)
}

var info *types.Info
var nSort, nMapRange, nHot int

var atomicMethods = map[string]bool{"Load": true, "Store": true, "Swap": true, "CompareAndSwap": true, "Add": true, "And": true, "Or": true}

// hasAtomicOp: does the statement itself (not the bodies nested in it) call into
// sync/atomic - a function of the package or a method of one of its types?
func hasAtomicOp(s ast.Stmt) bool {
	found := false
	check := func(n ast.Node) {
		if n == nil {
			return
		}
		ast.Inspect(n, func(x ast.Node) bool {
			switch c := x.(type) {
			case *ast.FuncLit, *ast.BlockStmt:
				return false
			case *ast.CallExpr:
				sel, ok := c.Fun.(*ast.SelectorExpr)
				if !ok {
					return true
				}
				if id, ok := sel.X.(*ast.Ident); ok && id.Name == "atomic" && id.Obj == nil {
					found = true
					return false
				}
				if atomicMethods[sel.Sel.Name] && info != nil {
					if t := info.TypeOf(sel.X); t != nil && strings.Contains(t.String(), "sync/atomic.") {
						found = true
						return false
					}
				}
			}
			return true
		})
	}
	switch t := s.(type) {
	case *ast.ExprStmt:
		check(t.X)
	case *ast.AssignStmt:
		for _, e := range t.Rhs {
			check(e)
		}
	case *ast.ReturnStmt:
		for _, e := range t.Results {
			check(e)
		}
	case *ast.IfStmt:
		if t.Init != nil {
			found = found || hasAtomicOp(t.Init)
		}
		check(t.Cond)
	case *ast.SwitchStmt:
		if t.Init != nil {
			found = found || hasAtomicOp(t.Init)
		}
		check(t.Tag)
	case *ast.ForStmt:
		check(t.Cond)
	case *ast.IncDecStmt:
		check(t.X)
	case *ast.DeferStmt:
		check(t.Call)
	case *ast.GoStmt:
		check(t.Call)
	}
	return found
}

func hasBuildLine(cg *ast.CommentGroup) bool {
	for _, c := range cg.List {
		if constraint.IsGoBuild(c.Text) || constraint.IsPlusBuild(c.Text) {
			return true
		}
	}
	return false
}

// buildTagsOK evaluates the file's //go:build line for the build the simulator uses.
func buildTagsOK(f *ast.File) bool {
	for _, cg := range f.Comments {
		if cg.Pos() > f.Package {
			break
		}
		for _, c := range cg.List {
			if !constraint.IsGoBuild(c.Text) {
				continue
			}
			x, err := constraint.Parse(c.Text)
			if err != nil {
				return true
			}
			return x.Eval(func(tag string) bool {
				switch tag {
				case "verif", "instr", "linux", "amd64", "gc", "unix":
					return true
				}
				return strings.HasPrefix(tag, "go1.")
			})
		}
	}
	return true
}

// callsPackage reports whether statement s is (or assigns the result of) a call pkg.F(...).
func callsPackage(s ast.Stmt, pkg string) bool {
	var x ast.Expr
	switch t := s.(type) {
	case *ast.ExprStmt:
		x = t.X
	case *ast.AssignStmt:
		if len(t.Rhs) == 1 {
			x = t.Rhs[0]
		}
	}
	ce, ok := x.(*ast.CallExpr)
	if !ok {
		return false
	}
	sel, ok := ce.Fun.(*ast.SelectorExpr)
	if !ok {
		return false
	}
	id, ok := sel.X.(*ast.Ident)
	return ok && id.Name == pkg && id.Obj == nil
}

// mapRange recognises `for ... := range m` with m of map type whose body can be left
// only by falling out of the loop, by an unlabelled break, or by return.
func mapRange(s ast.Stmt) (*ast.RangeStmt, bool) {
	rs, ok := s.(*ast.RangeStmt)
	if !ok || info == nil {
		return nil, false
	}
	t := info.TypeOf(rs.X)
	if t == nil {
		return nil, false
	}
	if _, isMap := t.Underlying().(*types.Map); !isMap {
		return nil, false
	}
	simple := true
	ast.Inspect(rs.Body, func(n ast.Node) bool {
		switch x := n.(type) {
		case *ast.FuncLit:
			return false
		case *ast.BranchStmt:
			if x.Label != nil || x.Tok == token.GOTO {
				simple = false
			}
		}
		return true
	})
	return rs, simple
}

func minusOne() ast.Stmt {
	return call("verifNoYield", &ast.UnaryExpr{Op: token.SUB, X: &ast.BasicLit{Kind: token.INT, Value: "1"}})
}

// beforeReturns inserts verifNoYield(-1) in front of every return statement below n
// (function literals excepted).
func beforeReturns(n ast.Node) {
	fix := func(list []ast.Stmt) []ast.Stmt {
		var out []ast.Stmt
		for _, s := range list {
			if _, ok := s.(*ast.ReturnStmt); ok {
				out = append(out, minusOne())
			}
			out = append(out, s)
		}
		return out
	}
	ast.Inspect(n, func(n ast.Node) bool {
		switch x := n.(type) {
		case *ast.FuncLit:
			return false
		case *ast.BlockStmt:
			x.List = fix(x.List)
		case *ast.CaseClause:
			x.Body = fix(x.Body)
		case *ast.CommClause:
			x.Body = fix(x.Body)
		}
		return true
	})
}

var generated = map[*ast.BlockStmt]bool{}
var clauseOnly = map[*ast.BlockStmt]bool{}

func genBlock(list ...ast.Stmt) *ast.BlockStmt {
	b := &ast.BlockStmt{List: list}
	generated[b] = true
	return b
}

func call(name string, args ...ast.Expr) ast.Stmt {
	return &ast.ExprStmt{X: &ast.CallExpr{Fun: ast.NewIdent(name), Args: args}}
}

func isCallTo(s ast.Stmt, name string) bool {
	es, ok := s.(*ast.ExprStmt)
	if !ok {
		return false
	}
	ce, ok := es.X.(*ast.CallExpr)
	if !ok {
		return false
	}
	id, ok := ce.Fun.(*ast.Ident)
	return ok && id.Name == name
}

// lockCall recognises `X.Lock()` / `X.RLock()` statements.
func lockCall(s ast.Stmt) (recv ast.Expr, read bool, ok bool) {
	es, isExpr := s.(*ast.ExprStmt)
	if !isExpr {
		return nil, false, false
	}
	ce, isCall := es.X.(*ast.CallExpr)
	if !isCall || len(ce.Args) != 0 {
		return nil, false, false
	}
	sel, isSel := ce.Fun.(*ast.SelectorExpr)
	if !isSel {
		return nil, false, false
	}
	switch sel.Sel.Name {
	case "Lock":
		return sel.X, false, true
	case "RLock":
		return sel.X, true, true
	}
	return nil, false, false
}

// isDoCall recognises `X.Do(f)` statements (sync.Once and look-alikes).
func isDoCall(s ast.Stmt) bool {
	es, ok := s.(*ast.ExprStmt)
	if !ok {
		return false
	}
	ce, ok := es.X.(*ast.CallExpr)
	if !ok || len(ce.Args) != 1 {
		return false
	}
	sel, ok := ce.Fun.(*ast.SelectorExpr)
	return ok && sel.Sel.Name == "Do"
}

func method(recv ast.Expr, name string) ast.Expr {
	return &ast.CallExpr{Fun: &ast.SelectorExpr{X: recv, Sel: ast.NewIdent(name)}}
}

func instrument(list []ast.Stmt, nYield, nLock *int) []ast.Stmt {
	var out []ast.Stmt
	for i, s := range list {
		if isCallTo(s, "verifYieldPoint") || isCallTo(s, "verifAutoLock") || isCallTo(s, "verifHotPoint") {
			out = append(out, s)
			continue
		}
		if recv, read, ok := lockCall(s); ok {
			announced := i > 0 && isCallTo(list[i-1], "verifPoint")
			if !announced {
				try, unlock := "TryLock", "Unlock"
				if read {
					try, unlock = "TryRLock", "RUnlock"
				}
				out = append(out, call("verifAutoLock",
					&ast.FuncLit{Type: &ast.FuncType{Params: &ast.FieldList{}, Results: &ast.FieldList{List: []*ast.Field{{Type: ast.NewIdent("bool")}}}},
						Body: genBlock(&ast.ReturnStmt{Results: []ast.Expr{method(recv, try)}})},
					&ast.FuncLit{Type: &ast.FuncType{Params: &ast.FieldList{}},
						Body: genBlock(&ast.ExprStmt{X: method(recv, unlock)})},
				))
				*nLock++
			}
			out = append(out, s)
			continue
		}
		if isCallTo(s, "verifPoint") || isCallTo(s, "verifNoYield") {
			out = append(out, s)
			continue
		}
		if callsPackage(s, "sort") {
			out = append(out, call("verifYieldPoint"), call("verifNoYield", &ast.BasicLit{Kind: token.INT, Value: "1"}), s, minusOne())
			*nYield++
			nSort++
			continue
		}
		if rs, ok := mapRange(s); ok {
			beforeReturns(rs.Body)
			out = append(out, call("verifYieldPoint"), call("verifNoYield", &ast.BasicLit{Kind: token.INT, Value: "1"}), s, minusOne())
			*nYield++
			nMapRange++
			continue
		}
		if isDoCall(s) {
			out = append(out, call("verifYieldPoint"), call("verifNoYield", &ast.BasicLit{Kind: token.INT, Value: "1"}), s,
				call("verifNoYield", &ast.UnaryExpr{Op: token.SUB, X: &ast.BasicLit{Kind: token.INT, Value: "1"}}))
			*nYield++
			continue
		}
		switch s.(type) {
		case *ast.DeclStmt, *ast.EmptyStmt:
			out = append(out, s)
			continue
		}
		if hasAtomicOp(s) {
			out = append(out, call("verifHotPoint"))
			nHot++
		} else {
			out = append(out, call("verifYieldPoint"))
		}
		*nYield++
		out = append(out, s)
	}
	return out
}
