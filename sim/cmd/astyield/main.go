// astyield instruments a scratch copy of the pongo2 sources for the simulator:
//
//   - before every statement of every function body a call verifYieldPoint() is
//     inserted, so that the seeded scheduler can pre-empt a task between any two
//     statements (also inside code that a change under test has just added);
//   - before every X.Lock() / X.RLock() statement that is not already announced by a
//     verifPoint(...) line, a call verifAutoLock(tryLock, unlock) is inserted, so that a
//     task which would block on a lock the scheduler does not know about parks instead.
//
// It only ever writes into the scratch directory given on the command line; /repo is
// never touched. Usage: astyield <dir>
package main

import (
	"bytes"
	"fmt"
	"go/ast"
	"go/format"
	"go/parser"
	"go/token"
	"os"
	"path/filepath"
	"strings"
)

const support = `//go:build verif

package pongo2

// Added to the scratch copy by /verif/sim/cmd/astyield.

// VerifYield, when set, is called between any two statements of the engine.
var VerifYield func()

func verifYieldPoint() {
	if f := VerifYield; f != nil {
		f()
	}
}

// VerifNoYield, when set, brackets a call that runs caller code under a lock of the
// standard library (sync.Once.Do): a task parked in there would make every other task
// that reaches the same Once block for real, behind the scheduler's back.
var VerifNoYield func(delta int)

func verifNoYield(delta int) {
	if f := VerifNoYield; f != nil {
		f(delta)
	}
}

// VerifAutoLock, when set, is called before a Lock()/RLock() the sources do not announce
// with verifPoint: try reports whether the lock could be taken right now, unlock undoes it.
var VerifAutoLock func(try func() bool, unlock func())

func verifAutoLock(try func() bool, unlock func()) {
	if f := VerifAutoLock; f != nil {
		f(try, unlock)
	}
}
`

func main() {
	if len(os.Args) != 2 {
		fmt.Fprintln(os.Stderr, "usage: astyield <dir>")
		os.Exit(2)
	}
	dir := os.Args[1]
	files, _ := filepath.Glob(filepath.Join(dir, "*.go"))
	nYield, nLock := 0, 0
	for _, fn := range files {
		base := filepath.Base(fn)
		if strings.HasSuffix(base, "_test.go") || strings.HasPrefix(base, "verif_") {
			continue
		}
		fset := token.NewFileSet()
		f, err := parser.ParseFile(fset, fn, nil, parser.ParseComments)
		if err != nil {
			fmt.Fprintln(os.Stderr, "astyield: parse:", err)
			os.Exit(2)
		}
		// comments would be misplaced by the insertions and are not needed in the copy
		f.Comments = nil
		ast.Inspect(f, func(n ast.Node) bool {
			switch x := n.(type) {
			case *ast.FuncDecl:
				x.Doc = nil
			case *ast.GenDecl:
				x.Doc = nil
			case *ast.Field:
				x.Doc, x.Comment = nil, nil
			case *ast.ValueSpec:
				x.Doc, x.Comment = nil, nil
			case *ast.TypeSpec:
				x.Doc, x.Comment = nil, nil
			case *ast.ImportSpec:
				x.Doc, x.Comment = nil, nil
			}
			return true
		})
		ast.Inspect(f, func(n ast.Node) bool {
			switch x := n.(type) {
			case *ast.SwitchStmt:
				clauseOnly[x.Body] = true
			case *ast.TypeSwitchStmt:
				clauseOnly[x.Body] = true
			case *ast.SelectStmt:
				clauseOnly[x.Body] = true
			case *ast.BlockStmt:
				if generated[x] {
					return false
				}
				if clauseOnly[x] {
					return true // its list holds case clauses, not statements
				}
				x.List = instrument(x.List, &nYield, &nLock)
			case *ast.CaseClause:
				x.Body = instrument(x.Body, &nYield, &nLock)
			case *ast.CommClause:
				x.Body = instrument(x.Body, &nYield, &nLock)
			}
			return true
		})
		var buf bytes.Buffer
		if err := format.Node(&buf, fset, f); err != nil {
			fmt.Fprintln(os.Stderr, "astyield: print:", err)
			os.Exit(2)
		}
		if err := os.WriteFile(fn, buf.Bytes(), 0o644); err != nil {
			fmt.Fprintln(os.Stderr, "astyield:", err)
			os.Exit(2)
		}
	}
	if err := os.WriteFile(filepath.Join(dir, "verif_astyield.go"), []byte(support), 0o644); err != nil {
		fmt.Fprintln(os.Stderr, "astyield:", err)
		os.Exit(2)
	}
	fmt.Printf("astyield: %d yield points, %d lock announcements in %s\n", nYield, nLock, dir)
}

var generated = map[*ast.BlockStmt]bool{}
var clauseOnly = map[*ast.BlockStmt]bool{}

func genBlock(list ...ast.Stmt) *ast.BlockStmt {
	b := &ast.BlockStmt{List: list}
	generated[b] = true
	return b
}

func call(name string, args ...ast.Expr) ast.Stmt {
	return &ast.ExprStmt{X: &ast.CallExpr{Fun: ast.NewIdent(name), Args: args}}
}

func isCallTo(s ast.Stmt, name string) bool {
	es, ok := s.(*ast.ExprStmt)
	if !ok {
		return false
	}
	ce, ok := es.X.(*ast.CallExpr)
	if !ok {
		return false
	}
	id, ok := ce.Fun.(*ast.Ident)
	return ok && id.Name == name
}

// lockCall recognises `X.Lock()` / `X.RLock()` statements.
func lockCall(s ast.Stmt) (recv ast.Expr, read bool, ok bool) {
	es, isExpr := s.(*ast.ExprStmt)
	if !isExpr {
		return nil, false, false
	}
	ce, isCall := es.X.(*ast.CallExpr)
	if !isCall || len(ce.Args) != 0 {
		return nil, false, false
	}
	sel, isSel := ce.Fun.(*ast.SelectorExpr)
	if !isSel {
		return nil, false, false
	}
	switch sel.Sel.Name {
	case "Lock":
		return sel.X, false, true
	case "RLock":
		return sel.X, true, true
	}
	return nil, false, false
}

// isDoCall recognises `X.Do(f)` statements (sync.Once and look-alikes).
func isDoCall(s ast.Stmt) bool {
	es, ok := s.(*ast.ExprStmt)
	if !ok {
		return false
	}
	ce, ok := es.X.(*ast.CallExpr)
	if !ok || len(ce.Args) != 1 {
		return false
	}
	sel, ok := ce.Fun.(*ast.SelectorExpr)
	return ok && sel.Sel.Name == "Do"
}

func method(recv ast.Expr, name string) ast.Expr {
	return &ast.CallExpr{Fun: &ast.SelectorExpr{X: recv, Sel: ast.NewIdent(name)}}
}

func instrument(list []ast.Stmt, nYield, nLock *int) []ast.Stmt {
	var out []ast.Stmt
	for i, s := range list {
		if isCallTo(s, "verifYieldPoint") || isCallTo(s, "verifAutoLock") {
			out = append(out, s)
			continue
		}
		if recv, read, ok := lockCall(s); ok {
			announced := i > 0 && isCallTo(list[i-1], "verifPoint")
			if !announced {
				try, unlock := "TryLock", "Unlock"
				if read {
					try, unlock = "TryRLock", "RUnlock"
				}
				out = append(out, call("verifAutoLock",
					&ast.FuncLit{Type: &ast.FuncType{Params: &ast.FieldList{}, Results: &ast.FieldList{List: []*ast.Field{{Type: ast.NewIdent("bool")}}}},
						Body: genBlock(&ast.ReturnStmt{Results: []ast.Expr{method(recv, try)}})},
					&ast.FuncLit{Type: &ast.FuncType{Params: &ast.FieldList{}},
						Body: genBlock(&ast.ExprStmt{X: method(recv, unlock)})},
				))
				*nLock++
			}
			out = append(out, s)
			continue
		}
		if isCallTo(s, "verifPoint") || isCallTo(s, "verifNoYield") {
			out = append(out, s)
			continue
		}
		if isDoCall(s) {
			out = append(out, call("verifYieldPoint"), call("verifNoYield", &ast.BasicLit{Kind: token.INT, Value: "1"}), s,
				call("verifNoYield", &ast.UnaryExpr{Op: token.SUB, X: &ast.BasicLit{Kind: token.INT, Value: "1"}}))
			*nYield++
			continue
		}
		switch s.(type) {
		case *ast.DeclStmt, *ast.EmptyStmt:
			out = append(out, s)
			continue
		}
		out = append(out, call("verifYieldPoint"))
		*nYield++
		out = append(out, s)
	}
	return out
}
