package main

import (
	"bufio"
	"bytes"
	"encoding/json"
	"flag"
	"fmt"
	"os"
	"os/exec"
	"path/filepath"
	"runtime"
	"runtime/debug"
	"sort"
	"strconv"
	"strings"
	"sync"
	"time"

	"verif/sim"
)

// simcheck run    -prop C20 -tier quick|thorough     parent: spawns workers, aggregates, writes evidence
// simcheck worker -prop C20 ...                      one OS process running a slice of the seed sequence
// simcheck replay -file replays/x.json               re-executes a replay file in this (fresh) process
// simcheck trace  -prop C20 -seed N -i K             prints the full event log of one run (determinism diffing)

var verifDir = func() string {
	if d := os.Getenv("VERIF_DIR"); d != "" {
		return d
	}
	return "/verif"
}()

type Finding struct {
	Property string       `json:"property"`
	Class    string       `json:"class"`
	Key      string       `json:"key"`
	Detail   string       `json:"detail"`
	Seed     uint64       `json:"seed"`
	RunIndex uint64       `json:"run_index"`
	Race     bool         `json:"race"`
	Tapes    sim.TapeVals `json:"tapes"`
	ProgHash uint64       `json:"prog_hash"`
	Shrink   any          `json:"shrink,omitempty"`
	Expected any          `json:"expected,omitempty"`
	Observed any          `json:"observed,omitempty"`
	Sample   any          `json:"materialised,omitempty"`
	// Sequence: the violation needs process state left behind by earlier runs; replay
	// executes these runs in order in one fresh process, the last one must violate.
	Sequence *SeqSpec `json:"sequence,omitempty"`
	// OrderA/OrderB: two index sequences ending in the same run; executed in two fresh
	// processes the final run yields different observable results (class run_order_dependence)
	OrderA      []uint64 `json:"order_a,omitempty"`
	OrderB      []uint64 `json:"order_b,omitempty"`
	OrderBase   uint64   `json:"order_base_seed,omitempty"`
	Instr       bool     `json:"instrumented_build"` // found with the statement-level instrumented build
	SliceFrom   uint64   `json:"slice_from"`
	SliceStride uint64   `json:"slice_stride"`
	Path        string   `json:"-"`
}

type SeqSpec struct {
	Base   uint64 `json:"base_seed"`
	From   uint64 `json:"from_index"`
	Stride uint64 `json:"stride"`
	Count  int    `json:"count"`
}

type WorkerReport struct {
	Runs          int               `json:"runs"`
	Evals         int               `json:"evals"`
	Discarded     int               `json:"discarded"`
	Steps         int               `json:"steps"`
	Execs         int               `json:"execs"`
	Hashes        []uint64          `json:"hashes"`
	HashesDropped int               `json:"hashes_dropped"`
	Digests       map[string]uint64 `json:"digests,omitempty"`
	ProgHashes    []uint64          `json:"prog_hashes"`
	Faults        map[string]int    `json:"faults"`
	Probes        map[string]int    `json:"probes"`
	Porcupine     [3]int            `json:"porcupine"`
	RaceRuns      int               `json:"race_runs"`
	RaceReports   int               `json:"race_reports"`
	Samples       []any             `json:"samples"`
	Findings      []Finding         `json:"findings"`
	HarnessErr    string            `json:"harness_err"`
	WallS         float64           `json:"wall_s"`
}

func main() {
	if len(os.Args) < 2 {
		fmt.Fprintln(os.Stderr, "usage: simcheck run|worker|replay|trace ...")
		os.Exit(2)
	}
	if os.Args[1] != "run" {
		// one P: per-P pools and everything else the Go runtime keeps per processor
		// behave the same way in every process, so state that survives between
		// simulated runs replays too (a replay process is short: no GC cycle empties a
		// pool there). Parallelism comes from running 16 worker processes.
		runtime.GOMAXPROCS(1)
		debug.SetGCPercent(200)
	}
	switch os.Args[1] {
	case "run":
		os.Exit(cmdRun(os.Args[2:]))
	case "worker":
		code := cmdWorker(os.Args[2:])
		sim.CleanupCanary()
		os.Exit(code)
	case "replay":
		code := cmdReplay(os.Args[2:])
		sim.CleanupCanary()
		os.Exit(code)
	case "digest":
		code := cmdDigest(os.Args[2:])
		sim.CleanupCanary()
		os.Exit(code)
	case "trace":
		code := cmdTrace(os.Args[2:])
		sim.CleanupCanary()
		os.Exit(code)
	}
	fmt.Fprintln(os.Stderr, "unknown command", os.Args[1])
	os.Exit(2)
}

func watchdog(d time.Duration, what *string) *time.Timer {
	return time.AfterFunc(d, func() {
		fmt.Fprintf(os.Stderr, "WATCHDOG: run exceeded %v: %s\n", d, *what)
		sim.CleanupCanary()
		os.Exit(2)
	})
}

// ------------------------------------------------------------------------- worker

func cmdWorker(args []string) int {
	fs := flag.NewFlagSet("worker", flag.ExitOnError)
	prop := fs.String("prop", "", "property id")
	base := fs.Uint64("seed", 1, "base seed")
	from := fs.Uint64("from", 0, "first run index")
	stride := fs.Uint64("stride", 1, "index stride")
	count := fs.Int("count", 100, "max runs")
	deadline := fs.Float64("deadline", 0, "stop after this many seconds (0: none)")
	wid := fs.Int("wid", 0, "worker id")
	auditM := fs.Uint64("audit", 0, "report run digests for indices below this")
	desc := fs.Bool("desc", false, "run the indices from+ (count-1)*stride down to from (audit pass)")
	fs.Parse(args)
	c := sim.Get(*prop)
	if c == nil {
		fmt.Fprintln(os.Stderr, "unknown property", *prop)
		return 2
	}
	rep := &WorkerReport{Faults: map[string]int{}, Probes: map[string]int{}}
	start := time.Now()
	progress := os.Getenv("VERIF_PROGRESS") != ""
	opt := sim.RunOpt{Race: sim.RaceEnabled}
	seenFinding := map[string]bool{}
	type pendingFinding struct {
		v    *sim.Violation
		tv   sim.TapeVals
		seed uint64
		idx  uint64
	}
	var pending []pendingFinding
	what := ""
	for n := 0; n < *count; n++ {
		if *deadline > 0 && time.Since(start).Seconds() > *deadline {
			break
		}
		idx := *from + uint64(n)**stride
		if *desc {
			idx = *from + uint64(*count-1-n)**stride
		}
		seed := sim.MixSeed(*base, *prop, idx)
		what = fmt.Sprintf("prop=%s base=%d index=%d", *prop, *base, idx)
		wd := watchdog(1200*time.Second, &what)
		tp := sim.TapesForRun(*base, *prop, idx)
		ropt := opt
		ropt.Sample = len(rep.Samples) < 2 && n%7 == 3
		t0 := time.Now()
		o := sim.SafeRun(c, tp, ropt)
		wd.Stop()
		if progress {
			fmt.Fprintf(os.Stderr, "PROGRESS run %d: %.0f ms steps=%d violations=%d\n", idx, time.Since(t0).Seconds()*1000, o.Steps, len(o.Violations))
		}
		rep.Runs++
		if idx < *auditM && len(o.Violations) == 0 && !o.Discarded {
			if rep.Digests == nil {
				rep.Digests = map[string]uint64{}
			}
			rep.Digests[fmt.Sprint(idx)] = o.Digest
		}
		if o.Evals > 0 {
			rep.Evals += o.Evals
		} else {
			rep.Evals++
		}
		if o.HarnessErr != "" {
			rep.HarnessErr = fmt.Sprintf("%s (%s)", o.HarnessErr, what)
			break
		}
		if o.Discarded {
			rep.Discarded++
		}
		rep.Steps += o.Steps
		rep.Execs += o.Execs
		// distinctness hashes are shipped to the parent; beyond a cap they are dropped and
		// the parent reports the distinct count as a lower bound
		const hashCap = 400000
		if len(o.CaseHashes) > 0 {
			if len(rep.Hashes)+len(o.CaseHashes) <= hashCap {
				rep.Hashes = append(rep.Hashes, o.CaseHashes...)
			} else {
				rep.HashesDropped += len(o.CaseHashes)
			}
		} else if o.NonTrivial {
			if len(rep.Hashes) < hashCap {
				rep.Hashes = append(rep.Hashes, o.TraceHash)
			} else {
				rep.HashesDropped++
			}
		}
		if len(rep.ProgHashes) < hashCap {
			rep.ProgHashes = append(rep.ProgHashes, o.ProgHash)
		}
		for k, v := range o.Faults {
			rep.Faults[k] += v
		}
		for k, v := range o.Probes {
			rep.Probes[k] += v
		}
		for i := range rep.Porcupine {
			rep.Porcupine[i] += o.Porcupine[i]
		}
		if o.RaceRun {
			rep.RaceRuns++
			rep.RaceReports += o.RaceCount
		}
		if ropt.Sample && o.Sample != nil && len(o.Violations) == 0 {
			rep.Samples = append(rep.Samples, o.Sample)
		}
		for _, v := range o.Violations {
			id := v.ID()
			if seenFinding[id] {
				continue
			}
			seenFinding[id] = true
			if len(pending) >= 4 {
				continue // enough distinct findings from this slice: minimising each one costs time
			}
			pending = append(pending, pendingFinding{v: v, tv: tp.Snapshot(), seed: seed, idx: idx})
		}
	}
	// minimise after the slice is done, so that the process history of every finding is
	// exactly the runs of this slice before it (needed for sequence replays)
	for _, pf := range pending {
		v, id := pf.v, pf.v.ID()
		wd2 := watchdog(600*time.Second, &what)
		maxEv := 400
		if v.Class == "deadlock" {
			maxEv = 120
		}
		t0 := time.Now()
		small, st := sim.Shrink(c, pf.tv, id, sim.RunOpt{Race: sim.RaceEnabled}, maxEv, 40*time.Second)
		if progress {
			fmt.Fprintf(os.Stderr, "PROGRESS shrink %s (run %d): %.1f s, %d evals\n", id, pf.idx, time.Since(t0).Seconds(), st.Evals)
		}
		// final run on the minimised tapes for the materialised description
		fo := sim.SafeRun(c, sim.ReplayTapes(small), sim.RunOpt{Race: sim.RaceEnabled, Sample: true})
		wd2.Stop()
		f := Finding{Property: *prop, Class: v.Class, Key: v.Key, Detail: v.Detail, Seed: pf.seed, RunIndex: pf.idx, Race: sim.RaceEnabled, Tapes: small, Shrink: st,
			SliceFrom: *from, SliceStride: *stride, Instr: sim.Instrumented}
		for _, fv := range fo.Violations {
			if fv.ID() == id {
				f.Detail, f.Expected, f.Observed = fv.Detail, fv.Expected, fv.Observed
			}
		}
		f.ProgHash = fo.ProgHash
		f.Sample = fo.Sample
		name := fmt.Sprintf("%s-%s-%d-w%d.json", *prop, sanitize(v.Class+"-"+v.Key), pf.idx, *wid)
		f.Path = filepath.Join(verifDir, "replays", name)
		os.MkdirAll(filepath.Dir(f.Path), 0o755)
		b, _ := json.MarshalIndent(f, "", " ")
		if err := os.WriteFile(f.Path, b, 0o644); err != nil {
			rep.HarnessErr = "cannot write replay file: " + err.Error()
		}
		f.Sample, f.Observed, f.Expected = nil, nil, nil
		rep.Findings = append(rep.Findings, f)
	}
	rep.WallS = time.Since(start).Seconds()
	type wire struct {
		WorkerReport
		Paths []string `json:"paths"`
	}
	wr := wire{WorkerReport: *rep}
	for _, f := range rep.Findings {
		wr.Paths = append(wr.Paths, f.Path)
	}
	out, _ := json.Marshal(wr)
	os.Stdout.Write(out)
	os.Stdout.Write([]byte("\n"))
	if rep.HarnessErr != "" {
		fmt.Fprintln(os.Stderr, "HARNESS ERROR:", rep.HarnessErr)
		return 2
	}
	return 0
}

func sanitize(s string) string {
	var b strings.Builder
	for _, r := range s {
		switch {
		case r >= 'a' && r <= 'z', r >= 'A' && r <= 'Z', r >= '0' && r <= '9', r == '-', r == '_':
			b.WriteRune(r)
		default:
			b.WriteByte('_')
		}
		if b.Len() > 60 {
			break
		}
	}
	return b.String()
}

// ------------------------------------------------------------------------- replay

func cmdReplay(args []string) int {
	fs := flag.NewFlagSet("replay", flag.ExitOnError)
	file := fs.String("file", "", "replay file")
	quiet := fs.Bool("quiet", false, "print only the verdict")
	fs.Parse(args)
	b, err := os.ReadFile(*file)
	if err != nil {
		fmt.Fprintln(os.Stderr, err)
		return 2
	}
	var f Finding
	if err := json.Unmarshal(b, &f); err != nil {
		fmt.Fprintln(os.Stderr, "bad replay file:", err)
		return 2
	}
	c := sim.Get(f.Property)
	if c == nil {
		fmt.Fprintln(os.Stderr, "unknown property", f.Property)
		return 2
	}
	if f.Instr != sim.Instrumented {
		// re-execute with the build variant the finding was made with
		name := "simcheck"
		if f.Instr {
			name = "simcheck-i"
		}
		cmd := exec.Command(filepath.Join(verifDir, ".build", name), append([]string{"replay"}, args...)...)
		cmd.Stdout, cmd.Stderr = os.Stdout, os.Stderr
		if err := cmd.Run(); err != nil {
			if ee, ok := err.(*exec.ExitError); ok {
				return ee.ExitCode()
			}
			return 2
		}
		return 0
	}
	if len(f.OrderA) > 0 {
		return replayOrder(&f, *quiet)
	}
	if f.Sequence != nil && (!f.Race || sim.RaceEnabled) {
		return replaySequence(c, &f, *quiet)
	}
	if f.Race && !sim.RaceEnabled {
		// race-class findings need the race binary
		self, _ := os.Executable()
		bin := self + "-race"
		cmd := exec.Command(bin, append([]string{"replay"}, args...)...)
		cmd.Env = raceEnv(os.Environ(), filepath.Join(verifDir, ".build", "racelog", "replay"))
		cmd.Stdout, cmd.Stderr = os.Stdout, os.Stderr
		if err := cmd.Run(); err != nil {
			if ee, ok := err.(*exec.ExitError); ok {
				return ee.ExitCode()
			}
			return 2
		}
		return 0
	}
	what := "replay " + *file
	wd := watchdog(1200*time.Second, &what)
	o := sim.SafeRun(c, sim.ReplayTapes(f.Tapes), sim.RunOpt{Race: sim.RaceEnabled, Sample: true, KeepLog: !*quiet})
	wd.Stop()
	if os.Getenv("VERIF_DUMPLOG") != "" {
		for _, l := range o.Log {
			fmt.Println(l)
		}
	}
	if o.HarnessErr != "" {
		fmt.Fprintln(os.Stderr, "HARNESS ERROR:", o.HarnessErr)
		return 2
	}
	if f.ProgHash != 0 && o.ProgHash != f.ProgHash {
		fmt.Fprintln(os.Stderr, "replay file is stale: the generator no longer produces the recorded workload from these tapes")
		return 2
	}
	for _, v := range o.Violations {
		if v.Class == f.Class && (v.Key == f.Key || (v.Class == "race" && (raceKeyMatch(v.Key, f.Key) || !hasRaceKey(o, f.Key)))) {
			if !*quiet {
				for _, l := range o.Log {
					fmt.Println(l)
				}
				s, _ := json.MarshalIndent(o.Sample, "", " ")
				fmt.Printf("materialised: %s\n", s)
				fmt.Printf("detail: %s\n", v.Detail)
				if v.Expected != nil {
					fmt.Printf("expected: %v\n", v.Expected)
				}
				if v.Observed != nil {
					ob, _ := json.MarshalIndent(v.Observed, "", " ")
					fmt.Printf("observed: %s\n", ob)
				}
			}
			fmt.Printf("REPRODUCED property=%s class=%s key=%q\n", f.Property, v.Class, v.Key)
			return 1
		}
	}
	var others []string
	for _, v := range o.Violations {
		others = append(others, v.ID())
	}
	fmt.Printf("NOT-REPRODUCED property=%s class=%s key=%q (this run reports: %v)\n", f.Property, f.Class, f.Key, others)
	return 0
}

// replaySequence executes the recorded slice of runs in order in this (fresh) process;
// the last one must report the violation. Used when a violation needs process state
// left behind by earlier runs (e.g. a package-level pool or cache inside the engine).
func replaySequence(c sim.Checker, f *Finding, quiet bool) int {
	sq := f.Sequence
	var last *sim.Outcome
	for n := 0; n < sq.Count; n++ {
		idx := sq.From + uint64(n)*sq.Stride
		what := fmt.Sprintf("sequence replay %s index %d", f.Property, idx)
		wd := watchdog(1200*time.Second, &what)
		last = sim.SafeRun(c, sim.TapesForRun(sq.Base, f.Property, idx), sim.RunOpt{Race: sim.RaceEnabled, Sample: n == sq.Count-1})
		wd.Stop()
		if last.HarnessErr != "" {
			fmt.Fprintln(os.Stderr, "HARNESS ERROR:", last.HarnessErr)
			return 2
		}
	}
	if last != nil {
		for _, v := range last.Violations {
			if v.Class == f.Class && (v.Key == f.Key || v.Class == "race") {
				if !quiet {
					sb, _ := json.MarshalIndent(last.Sample, "", " ")
					fmt.Printf("materialised (last run of the sequence): %s\ndetail: %s\n", sb, v.Detail)
				}
				fmt.Printf("REPRODUCED property=%s class=%s key=%q (sequence of %d runs in one process)\n", f.Property, v.Class, v.Key, sq.Count)
				return 1
			}
		}
	}
	fmt.Printf("NOT-REPRODUCED property=%s class=%s key=%q (sequence of %d runs)\n", f.Property, f.Class, f.Key, sq.Count)
	return 0
}

// cmdDigest executes the given run indices in order in this process and prints the
// digest of the last one.
func cmdDigest(args []string) int {
	fs := flag.NewFlagSet("digest", flag.ExitOnError)
	prop := fs.String("prop", "", "property id")
	base := fs.Uint64("seed", 1, "base seed")
	list := fs.String("indices", "", "comma separated run indices")
	fs.Parse(args)
	c := sim.Get(*prop)
	if c == nil {
		return 2
	}
	var last *sim.Outcome
	for _, t := range strings.Split(*list, ",") {
		idx, err := strconv.ParseUint(strings.TrimSpace(t), 10, 64)
		if err != nil {
			return 2
		}
		what := fmt.Sprintf("digest %s index %d", *prop, idx)
		wd := watchdog(1200*time.Second, &what)
		last = sim.SafeRun(c, sim.TapesForRun(*base, *prop, idx), sim.RunOpt{})
		wd.Stop()
	}
	if last == nil || last.HarnessErr != "" {
		return 2
	}
	fmt.Printf("DIGEST %d violations=%d\n", last.Digest, len(last.Violations))
	return 0
}

func digestOf(bin, prop string, base uint64, indices []uint64) (uint64, bool) {
	var parts []string
	for _, i := range indices {
		parts = append(parts, fmt.Sprint(i))
	}
	out, err := exec.Command(bin, "digest", "-prop", prop, "-seed", fmt.Sprint(base), "-indices", strings.Join(parts, ",")).Output()
	if err != nil {
		return 0, false
	}
	var d uint64
	var v int
	for _, ln := range strings.Split(string(out), "\n") {
		if _, err := fmt.Sscanf(ln, "DIGEST %d violations=%d", &d, &v); err == nil {
			return d, true
		}
	}
	return 0, false
}

// minimiseOrder shrinks two index sequences (both ending in run i) whose final digests
// differ. Each candidate is executed in a fresh process.
func minimiseOrder(bin, prop string, base uint64, i uint64, seqA, seqB []uint64) ([]uint64, []uint64, bool) {
	budget := 120
	dig := func(s []uint64) (uint64, bool) {
		if budget <= 0 {
			return 0, false
		}
		budget--
		return digestOf(bin, prop, base, s)
	}
	da, okA := dig(seqA)
	db, okB := dig(seqB)
	if !okA || !okB || da == db {
		return nil, nil, false
	}
	d0, ok0 := dig([]uint64{i})
	if !ok0 {
		return seqA, seqB, true
	}
	// keep one side as the run alone, shrink the side that differs from it
	alone := []uint64{i}
	other, dOther := seqB, db
	if db == d0 {
		other, dOther = seqA, da
	}
	if dOther == d0 {
		return seqA, seqB, true // both differ from each other but one equals "alone": keep as is
	}
	cur := other
	// shortest suffix that still differs from the run alone
	for w := 2; w < len(cur); w = w*2 - 1 {
		cand := cur[len(cur)-w:]
		if d, ok := dig(cand); ok && d != d0 {
			cur = cand
			break
		}
	}
	// drop earlier runs one at a time
	for k := 0; k < len(cur)-1 && budget > 0; {
		cand := append(append([]uint64{}, cur[:k]...), cur[k+1:]...)
		if d, ok := dig(cand); ok && d != d0 {
			cur = cand
		} else {
			k++
		}
	}
	return alone, cur, true
}

func replayOrder(f *Finding, quiet bool) int {
	self, _ := os.Executable()
	da, okA := digestOf(self, f.Property, f.OrderBase, f.OrderA)
	db, okB := digestOf(self, f.Property, f.OrderBase, f.OrderB)
	if !okA || !okB {
		fmt.Fprintln(os.Stderr, "HARNESS ERROR: digest process failed")
		return 2
	}
	if !quiet {
		fmt.Printf("sequence A %v -> digest %d\nsequence B %v -> digest %d\n", f.OrderA, da, f.OrderB, db)
	}
	if da != db {
		fmt.Printf("REPRODUCED property=%s class=%s key=%q (the final run's observable results depend on what the process executed before)\n", f.Property, f.Class, f.Key)
		return 1
	}
	fmt.Printf("NOT-REPRODUCED property=%s class=%s key=%q\n", f.Property, f.Class, f.Key)
	return 0
}

// ------------------------------------------------------------------------- trace

func cmdTrace(args []string) int {
	fs := flag.NewFlagSet("trace", flag.ExitOnError)
	prop := fs.String("prop", "", "property id")
	base := fs.Uint64("seed", 1, "base seed")
	from := fs.Uint64("from", 0, "first run index")
	count := fs.Int("count", 1, "number of runs")
	fs.Parse(args)
	c := sim.Get(*prop)
	if c == nil {
		return 2
	}
	w := bufio.NewWriter(os.Stdout)
	defer w.Flush()
	for i := 0; i < *count; i++ {
		idx := *from + uint64(i)
		seed := sim.MixSeed(*base, *prop, idx)
		o := sim.SafeRun(c, sim.TapesForRun(*base, *prop, idx), sim.RunOpt{KeepLog: true, Sample: true, Race: sim.RaceEnabled})
		fmt.Fprintf(w, "== run %d seed %d steps %d trace %x prog %x nontrivial %v harness %q\n", idx, seed, o.Steps, o.TraceHash, o.ProgHash, o.NonTrivial, o.HarnessErr)
		for _, l := range o.Log {
			fmt.Fprintln(w, l)
		}
		sb, _ := json.Marshal(o.Sample)
		fmt.Fprintf(w, "sample %s\n", sb)
		for _, v := range o.Violations {
			if v.Class == "race" {
				fmt.Fprintf(w, "violation race %s\n", v.Key)
				continue
			}
			vb, _ := json.Marshal(v)
			fmt.Fprintf(w, "violation %s\n", vb)
		}
		fk := make([]string, 0)
		for k, v := range o.Faults {
			fk = append(fk, fmt.Sprintf("%s=%d", k, v))
		}
		sort.Strings(fk)
		fmt.Fprintf(w, "faults %v\n", fk)
	}
	return 0
}

// ------------------------------------------------------------------------- run (parent)

type knownFinding struct {
	Property string `json:"property"`
	Class    string `json:"class"`
	Key      string `json:"key"`
	What     string `json:"what"`
}

type knownFile struct {
	Known []knownFinding `json:"known"`
	Fixed []string       `json:"fixed"`
}

func raceEnv(env []string, logPrefix string) []string {
	os.MkdirAll(filepath.Dir(logPrefix), 0o755)
	out := make([]string, 0, len(env)+2)
	for _, e := range env {
		if strings.HasPrefix(e, "GORACE=") || strings.HasPrefix(e, "VERIF_RACELOG=") {
			continue
		}
		out = append(out, e)
	}
	out = append(out, "GORACE=suppress_equal_stacks=0 suppress_equal_addresses=0 halt_on_error=0 exitcode=0 history_size=7 log_path="+logPrefix)
	out = append(out, "VERIF_RACELOG="+logPrefix)
	return out
}

func envInt(name string, def int) int {
	if v := os.Getenv(name); v != "" {
		if n, err := strconv.Atoi(v); err == nil {
			return n
		}
	}
	return def
}

func cmdRun(args []string) int {
	fs := flag.NewFlagSet("run", flag.ExitOnError)
	prop := fs.String("prop", "", "property id")
	tier := fs.String("tier", "quick", "quick|thorough")
	fs.Parse(args)
	c := sim.Get(*prop)
	if c == nil {
		fmt.Fprintln(os.Stderr, "unknown property", *prop)
		return 2
	}
	meta := c.Meta()
	baseSeed := uint64(1)
	if v := os.Getenv("VERIF_SEED"); v != "" {
		if n, err := strconv.ParseUint(v, 10, 64); err == nil {
			baseSeed = n
		} else if n, err := strconv.ParseInt(v, 10, 64); err == nil {
			baseSeed = uint64(n)
		}
	}
	workers := envInt("VERIF_WORKERS", 16)
	deepWorkers := 0
	plainRuns, raceRuns := meta.QuickRuns, meta.QuickRace
	deadline := 0.0
	if *tier == "thorough" {
		deadline = float64(envInt("VERIF_THOROUGH_SECS", 600))
		plainRuns, raceRuns = 1<<30, 1<<30
	}
	if v := envInt("VERIF_RUNS", 0); v > 0 {
		plainRuns = v
	}
	if v := envInt("VERIF_RACE_RUNS", -1); v >= 0 {
		raceRuns = v
	}
	start := time.Now()
	self, _ := os.Executable()
	raceBin := self + "-race"
	os.RemoveAll(filepath.Join(verifDir, ".build", "racelog"))

	// worker allocation: quick = all plain workers, then all race workers (sequential
	// batches keep the machine from being oversubscribed); thorough = 10 plain + 6 race
	type job struct {
		bin    string
		race   bool
		wid    int
		from   uint64
		stride uint64
		count  int
		audit  bool
	}
	const auditM = 384 // run indices whose results are cross-checked against a differently ordered pass
	var batches [][]job
	mk := func(bin string, race bool, total, nw, widBase int) []job {
		var js []job
		if total <= 0 || nw <= 0 {
			return nil
		}
		for w := 0; w < nw; w++ {
			cnt := total / nw
			if w < total%nw {
				cnt++
			}
			if cnt == 0 {
				continue
			}
			js = append(js, job{bin: bin, race: race, wid: widBase + w, from: uint64(w), stride: uint64(nw), count: cnt})
		}
		return js
	}
	if *tier == "thorough" {
		np := workers * 5 / 8
		if np < 1 {
			np = 1
		}
		nr := workers - np
		if raceRuns == 0 || meta.QuickRace == 0 {
			np, nr = workers, 0
		}
		b := mk(self, false, plainRuns, np, 0)
		b = append(b, mk(raceBin, true, raceRuns, nr, 100)...)
		// every second worker takes its indices from the deep range: the same generators
		// with larger bounds (more tasks, longer histories, bigger programs and trees)
		if os.Getenv("VERIF_NO_DEEP") == "" {
			for i := range b {
				if i%2 == 1 {
					b[i].from += sim.DeepFrom
					deepWorkers++
				}
			}
		}
		batches = append(batches, b)
	} else {
		batches = append(batches, mk(self, false, plainRuns, workers, 0))
		if meta.QuickRace > 0 && raceRuns > 0 {
			batches = append(batches, mk(raceBin, true, raceRuns, workers, 100))
		}
	}

	if len(batches) > 0 && plainRuns >= auditM {
		// order-independence audit: one more process executes the first auditM runs in
		// descending order; every run must yield the same observable results there
		batches[0] = append(batches[0], job{bin: self, wid: 99, from: 0, stride: 1, count: auditM, audit: true})
	}
	unconfirmedOrder := ""
	fwdDigest := map[uint64]uint64{}
	fwdSlice := map[uint64][2]uint64{} // index -> (from, stride) of the worker that ran it
	audDigest := map[uint64]uint64{}
	total := &WorkerReport{Faults: map[string]int{}, Probes: map[string]int{}}
	var findings []Finding
	harness := ""
	var mu sync.Mutex
	for bi, batch := range batches {
		if bi > 0 && hasUnknownFinding(*prop, findings) {
			// the first batch already produced findings that are not listed as known: they get
			// minimised, confirmed and reported below; further batches would only add time
			fmt.Println("NOTE: findings in the first batch; the remaining batches are skipped")
			break
		}
		var wg sync.WaitGroup
		for _, j := range batch {
			wg.Add(1)
			go func(j job) {
				defer wg.Done()
				a := []string{"worker", "-prop", *prop, "-seed", fmt.Sprint(baseSeed), "-from", fmt.Sprint(j.from), "-stride", fmt.Sprint(j.stride), "-count", fmt.Sprint(j.count), "-wid", fmt.Sprint(j.wid)}
				if deadline > 0 && !j.audit {
					a = append(a, "-deadline", fmt.Sprint(deadline))
				}
				if !j.race {
					a = append(a, "-audit", fmt.Sprint(auditM))
				}
				if j.audit {
					a = append(a, "-desc")
				}
				cmd := exec.Command(j.bin, a...)
				cmd.Env = append(os.Environ(), "GOMEMLIMIT=2GiB")
				if j.race {
					cmd.Env = raceEnv(cmd.Env, filepath.Join(verifDir, ".build", "racelog", fmt.Sprintf("w%d", j.wid)))
				}
				var so, se bytes.Buffer
				cmd.Stdout, cmd.Stderr = &so, &se
				err := cmd.Run()
				mu.Lock()
				defer mu.Unlock()
				if err != nil {
					harness += fmt.Sprintf("worker %d failed: %v: %s\n", j.wid, err, tail(se.String(), 2000))
				}
				var wr struct {
					WorkerReport
					Paths []string `json:"paths"`
				}
				lines := strings.Split(strings.TrimSpace(so.String()), "\n")
				if len(lines) == 0 || json.Unmarshal([]byte(lines[len(lines)-1]), &wr) != nil {
					harness += fmt.Sprintf("worker %d produced no report: %s\n", j.wid, tail(se.String(), 2000))
					return
				}
				if j.audit {
					for k, d := range wr.Digests {
						i, _ := strconv.ParseUint(k, 10, 64)
						audDigest[i] = d
					}
					if wr.HarnessErr != "" {
						harness += wr.HarnessErr + "\n"
					}
					return // the audit pass repeats runs already counted
				}
				if !j.race {
					for k, d := range wr.Digests {
						i, _ := strconv.ParseUint(k, 10, 64)
						fwdDigest[i] = d
						fwdSlice[i] = [2]uint64{j.from, j.stride}
					}
				}
				total.Runs += wr.Runs
				total.Evals += wr.Evals
				total.Discarded += wr.Discarded
				total.Steps += wr.Steps
				total.Execs += wr.Execs
				total.Hashes = append(total.Hashes, wr.Hashes...)
				total.HashesDropped += wr.HashesDropped
				total.ProgHashes = append(total.ProgHashes, wr.ProgHashes...)
				for k, v := range wr.Faults {
					total.Faults[k] += v
				}
				for k, v := range wr.Probes {
					total.Probes[k] += v
				}
				for i := range total.Porcupine {
					total.Porcupine[i] += wr.Porcupine[i]
				}
				total.RaceRuns += wr.RaceRuns
				total.RaceReports += wr.RaceReports
				if len(total.Samples) < 3 {
					total.Samples = append(total.Samples, wr.Samples...)
				}
				for i, f := range wr.Findings {
					if i < len(wr.Paths) {
						f.Path = wr.Paths[i]
					}
					findings = append(findings, f)
				}
				if wr.HarnessErr != "" {
					harness += wr.HarnessErr + "\n"
				}
			}(j)
		}
		wg.Wait()
	}
	// ---- order-independence: the same run must yield the same results in both passes ------
	orderChecked := 0
	var orderIdx []uint64
	for i := range audDigest {
		orderIdx = append(orderIdx, i)
	}
	sort.Slice(orderIdx, func(a, b int) bool { return orderIdx[a] < orderIdx[b] })
	for _, i := range orderIdx {
		fd, ok := fwdDigest[i]
		if !ok {
			continue
		}
		orderChecked++
		if fd == audDigest[i] {
			continue
		}
		// sequences as executed: forward worker slice up to i, audit pass down to i
		sl := fwdSlice[i]
		var seqA, seqB []uint64
		for x := sl[0]; x <= i; x += sl[1] {
			seqA = append(seqA, x)
		}
		for x := uint64(auditM - 1); ; x-- {
			seqB = append(seqB, x)
			if x == i {
				break
			}
		}
		a, b, okm := minimiseOrder(self, *prop, baseSeed, i, seqA, seqB)
		if !okm {
			unconfirmedOrder += fmt.Sprintf("run %d gave different results in the two passes but the difference did not reproduce in fresh processes\n", i)
			continue
		}
		f := Finding{Property: *prop, Class: "run_order_dependence", Key: "results depend on earlier runs in the process", RunIndex: i, Seed: sim.MixSeed(baseSeed, *prop, i),
			Detail: fmt.Sprintf("run %d yields different observable results depending on which runs the process executed before it: the engine keeps state outside the template set / compiled template", i),
			OrderA: a, OrderB: b, OrderBase: baseSeed, Instr: sim.Instrumented}
		f.Path = filepath.Join(verifDir, "replays", fmt.Sprintf("%s-run_order_dependence-%d.json", *prop, i))
		bb, _ := json.MarshalIndent(f, "", " ")
		os.WriteFile(f.Path, bb, 0o644)
		findings = append(findings, f)
		break // one is enough: they share the cause
	}
	wall := time.Since(start).Seconds()

	// ---- classify findings -------------------------------------------------------
	var kf knownFile
	if b, err := os.ReadFile(filepath.Join(verifDir, "known_findings.json")); err == nil {
		if err := json.Unmarshal(b, &kf); err != nil {
			harness += "known_findings.json does not parse: " + err.Error() + "\n"
		}
	}
	sort.Slice(findings, func(i, j int) bool {
		if findings[i].Class+findings[i].Key != findings[j].Class+findings[j].Key {
			return findings[i].Class+findings[i].Key < findings[j].Class+findings[j].Key
		}
		return findings[i].RunIndex < findings[j].RunIndex
	})
	reported := map[string]bool{}
	violations := 0
	unconfirmed := unconfirmedOrder
	knownHit := map[int]bool{}
	for _, f := range findings {
		id := f.Class + "|" + f.Key
		if reported[id] {
			if f.Path != "" {
				os.Remove(f.Path)
			}
			continue
		}
		reported[id] = true
		if violations+strings.Count(unconfirmed, "\n") >= 8 {
			os.Remove(f.Path) // plenty reported already
			continue
		}
		isKnown := false
		for i, k := range kf.Known {
			if k.Property == *prop && k.Class == f.Class && k.Key == f.Key {
				isKnown = true
				if !knownHit[i] {
					knownHit[i] = true
					fmt.Printf("KNOWN-FINDING: property=%s %s\n", *prop, k.What)
				}
			}
		}
		if isKnown {
			os.Remove(f.Path)
			continue
		}
		// confirm in a fresh process
		bin := self
		var env []string = os.Environ()
		if f.Race {
			bin = raceBin
			env = raceEnv(env, filepath.Join(verifDir, ".build", "racelog", "confirm"))
		}
		runReplay := func(path string) (int, string) {
			// (the race runtime keeps a bounded access history, so a report can be lost; and an
			// engine change may have made the engine itself nondeterministic - Go's map order -,
			// in which case a faithful replay reproduces only some of the time)
			attempts := 3
			code, outs := 0, ""
			for a := 0; a < attempts; a++ {
				cmd := exec.Command(bin, "replay", "-quiet", "-file", path)
				cmd.Env = env
				outb, err := cmd.CombinedOutput()
				outs = string(outb)
				code = 0
				if ee, ok := err.(*exec.ExitError); ok {
					code = ee.ExitCode()
				} else if err != nil {
					code = 2
				}
				if code == 1 {
					break
				}
			}
			return code, outs
		}
		code, outs := runReplay(f.Path)
		confirmed := code == 1 && strings.Contains(outs, "REPRODUCED property="+*prop)
		if !confirmed && f.SliceStride > 0 {
			// The single run does not violate on its own: it may need state that earlier runs
			// of the same worker process left behind inside the engine. Re-execute growing
			// windows of that worker's slice, ending with the violating run, in a fresh process.
			nBefore := int((f.RunIndex - f.SliceFrom) / f.SliceStride)
			// (a window of 1 is the original, unminimised run: minimisation itself may have
			// relied on state the worker process had accumulated by then)
			for _, w := range []int{1, 2, 4, 16, 64, 256, 1 << 30} {
				if w-1 > nBefore {
					w = nBefore + 1
				}
				sf := f
				sf.Tapes = sim.TapeVals{}
				sf.Sequence = &SeqSpec{Base: baseSeed, From: f.RunIndex - uint64(w-1)*f.SliceStride, Stride: f.SliceStride, Count: w}
				sf.Detail = f.Detail + " [needs engine state left behind by the preceding runs of the sequence]"
				b, _ := json.MarshalIndent(sf, "", " ")
				seqPath := strings.TrimSuffix(f.Path, ".json") + "-seq.json"
				os.WriteFile(seqPath, b, 0o644)
				c2, o2 := runReplay(seqPath)
				if c2 == 1 && strings.Contains(o2, "REPRODUCED property="+*prop) {
					os.Remove(f.Path)
					f.Path = seqPath
					f.Detail = sf.Detail
					confirmed = true
					break
				}
				os.Remove(seqPath)
				if w == nBefore+1 {
					break
				}
			}
		}
		if confirmed {
			violations++
			fmt.Printf("VIOLATION property=%s replay=%s\n", *prop, f.Path)
			fmt.Printf("  class=%s key=%q seed=%d index=%d: %s\n", f.Class, f.Key, f.Seed, f.RunIndex, f.Detail)
		} else {
			unconfirmed += fmt.Sprintf("finding %s did not reproduce in a fresh process (exit %d): %s; replay file kept at %s\n", id, code, tail(outs, 300), f.Path)
		}
	}
	if unconfirmed != "" {
		if violations > 0 {
			fmt.Printf("NOTE: further findings of this batch did not reproduce in a fresh process (files kept):\n%s", unconfirmed)
		} else {
			harness += unconfirmed
		}
	}

	if violations == 0 && sim.Instrumented && strings.Contains(harness, "WATCHDOG") && os.Getenv("VERIF_NO_FALLBACK") == "" {
		// A task blocked behind the scheduler's back (a parked task holds something the
		// instrumenter could not announce). Statement-level pre-emption is an extra; rather
		// than failing the check, repeat it with the seam-level scheduler only.
		fmt.Println("NOTE: a run hung under statement-level pre-emption; repeating the check with seam-level scheduling only")
		plain := strings.TrimSuffix(self, "-i")
		cmd := exec.Command(plain, append([]string{"run"}, args...)...)
		cmd.Env = append(os.Environ(), "VERIF_NO_FALLBACK=1")
		cmd.Stdout, cmd.Stderr = os.Stdout, os.Stderr
		if err := cmd.Run(); err != nil {
			if ee, ok := err.(*exec.ExitError); ok {
				return ee.ExitCode()
			}
			return 2
		}
		return 0
	}
	// ---- evidence -----------------------------------------------------------------
	distinct := map[uint64]bool{}
	for _, h := range total.Hashes {
		distinct[h] = true
	}
	progs := map[uint64]bool{}
	for _, h := range total.ProgHashes {
		progs[h] = true
	}
	var zeroProbes []string
	for _, p := range c.ProbeNames() {
		if total.Probes[p] == 0 {
			zeroProbes = append(zeroProbes, p)
		}
	}
	if len(total.Samples) == 0 {
		total.Samples = []any{"no sample collected"}
	}
	cov := map[string]any{
		"evaluations":                           total.Evals,
		"simulated_runs":                        total.Runs,
		"distinct_nontrivial":                   len(distinct),
		"distinct_nontrivial_note":              fmt.Sprintf("exact count over %d recorded non-trivial cases; %d further non-trivial cases were not recorded (per-worker cap), so this is a lower bound when that number is > 0", len(total.Hashes), total.HashesDropped),
		"rule":                                  meta.Rule,
		"samples":                               total.Samples,
		"engine_operations":                     total.Execs,
		"runs_per_hour":                         int(float64(total.Runs) / wall * 3600),
		"seeds":                                 map[string]any{"base": baseSeed, "derivation": "splitmix64(base, property, run index)", "run_indices": total.Runs},
		"logical_steps":                         total.Steps,
		"simulated_time":                        "none: pongo2 has no clock-dependent behaviour; logical_steps (scheduler decisions + seam events) is the only time there is",
		"faults_fired":                          total.Faults,
		"distinct_interleavings":                len(distinct),
		"distinct_workloads":                    len(progs),
		"probes":                                total.Probes,
		"probes_at_zero":                        zeroProbes,
		"race_runs":                             total.RaceRuns,
		"race_reports":                          total.RaceReports,
		"porcupine":                             map[string]int{"ok": total.Porcupine[0], "illegal": total.Porcupine[1], "unknown": total.Porcupine[2]},
		"discarded":                             total.Discarded,
		"components":                            map[string]any{"real": meta.Real, "stub": meta.Stub},
		"known_findings_observed":               len(knownHit),
		"order_independence_runs_cross_checked": orderChecked,
		"workers":                               workers,
		"workers_on_deep_bounds":                deepWorkers,
	}
	ev := map[string]any{
		"property_id": *prop,
		"tier":        *tier,
		"seed":        baseSeed,
		"level":       meta.Level,
		"coverage":    cov,
		"assumptions": meta.Assumptions,
		"wall_s":      wall,
		"violations":  violations,
	}
	eb, _ := json.MarshalIndent(ev, "", " ")
	os.MkdirAll(filepath.Join(verifDir, "evidence"), 0o755)
	if err := os.WriteFile(filepath.Join(verifDir, "evidence", *prop+".json"), eb, 0o644); err != nil {
		harness += "cannot write evidence: " + err.Error()
	}
	fmt.Printf("%s %s: runs=%d (race %d) distinct_nontrivial=%d workloads=%d steps=%d faults=%v porcupine=%v race_reports=%d wall=%.1fs\n",
		*prop, *tier, total.Runs, total.RaceRuns, len(distinct), len(progs), total.Steps, total.Faults, total.Porcupine, total.RaceReports, wall)
	if len(zeroProbes) > 0 {
		fmt.Printf("WARNING: reach probes at zero: %v\n", zeroProbes)
	}
	if harness != "" {
		if len(harness) > 3000 {
			harness = harness[:3000] + "\n... (truncated)\n"
		}
		if violations > 0 {
			// confirmed violations stand on their own replay files; trouble in other workers
			// (often caused by the very same defect, e.g. a fatal runtime error) must not hide them
			fmt.Printf("NOTE: some worker processes also ended abnormally:\n%s", harness)
			return 1
		}
		fmt.Fprintf(os.Stderr, "HARNESS ERROR:\n%s", harness)
		return 2
	}
	if violations > 0 {
		return 1
	}
	fmt.Printf("OK property=%s held on everything explored\n", *prop)
	return 0
}

// hasUnknownFinding: is there a finding that known_findings.json does not list?
func hasUnknownFinding(prop string, fs []Finding) bool {
	var kf knownFile
	if b, err := os.ReadFile(filepath.Join(verifDir, "known_findings.json")); err == nil {
		json.Unmarshal(b, &kf)
	}
	for _, f := range fs {
		known := false
		for _, k := range kf.Known {
			if k.Property == prop && k.Class == f.Class && k.Key == f.Key {
				known = true
			}
		}
		if !known {
			return true
		}
	}
	return false
}

// hasRaceKey: does the outcome contain a race violation matching key?
func hasRaceKey(o *sim.Outcome, key string) bool {
	for _, v := range o.Violations {
		if v.Class == "race" && raceKeyMatch(v.Key, key) {
			return true
		}
	}
	return false
}

// raceKeyMatch compares two "a <-> b" race keys; a frame the race runtime could not
// restore ("?") matches anything.
func raceKeyMatch(a, b string) bool {
	pa, pb := strings.Split(a, " <-> "), strings.Split(b, " <-> ")
	if len(pa) != 2 || len(pb) != 2 {
		return a == b
	}
	eq := func(x, y string) bool { return x == y || x == "?" || y == "?" }
	return (eq(pa[0], pb[0]) && eq(pa[1], pb[1])) || (eq(pa[0], pb[1]) && eq(pa[1], pb[0]))
}

func tail(s string, n int) string {
	if len(s) > n {
		return s[len(s)-n:]
	}
	return s
}
