//go:build !instr

package sim

const Instrumented = false
