package sim

import (
	"fmt"
	"sort"
)

// Violation identifies a failed oracle. (Class, Key) is the unit of minimisation
// and of known-finding matching.
type Violation struct {
	Class    string `json:"class"`
	Key      string `json:"key"`
	Detail   string `json:"detail"`
	Expected any    `json:"expected,omitempty"`
	Observed any    `json:"observed,omitempty"`
}

func (v *Violation) ID() string { return v.Class + "|" + v.Key }

// Outcome is everything one simulated run reports.
type Outcome struct {
	Violations []*Violation   `json:"violations,omitempty"`
	Discarded  bool           `json:"discarded,omitempty"`
	HarnessErr string         `json:"harness_err,omitempty"` // self-inconsistency: exit 2, never a violation
	Steps      int            `json:"steps"`
	Execs      int            `json:"execs"` // engine operations performed (system side)
	Faults     map[string]int `json:"faults,omitempty"`
	Probes     map[string]int `json:"probes,omitempty"`
	TraceHash  uint64         `json:"trace_hash"`
	ProgHash   uint64         `json:"prog_hash"`
	NonTrivial bool           `json:"nontrivial"`
	CaseHashes []uint64       `json:"case_hashes,omitempty"` // per-case distinctness hashes when one run enumerates many cases
	Evals      int            `json:"evals,omitempty"`       // cases evaluated by this run (0: the run is one case)
	// Digest hashes everything the system side of this run let a caller observe (outputs,
	// errors, written bytes, identities). It must be a function of the run alone: the
	// driver compares it across processes that executed the run after different
	// histories (order-independence oracle).
	Digest    uint64   `json:"digest"`
	Sample    any      `json:"sample,omitempty"`
	Log       []string `json:"log,omitempty"`
	Porcupine [3]int   `json:"porcupine,omitempty"` // ok, illegal, unknown
	RaceRun   bool     `json:"race_run,omitempty"`
	RaceCount int      `json:"race_count,omitempty"`
}

func (o *Outcome) addViolation(class, key, detail string, exp, obs any) {
	for _, v := range o.Violations {
		if v.Class == class && v.Key == key {
			return
		}
	}
	o.Violations = append(o.Violations, &Violation{Class: class, Key: key, Detail: detail, Expected: exp, Observed: obs})
}

func (o *Outcome) dig(parts ...string) {
	h := hasher(o.Digest)
	if o.Digest == 0 {
		h = newHasher()
	}
	for _, p := range parts {
		h.str(p)
	}
	o.Digest = uint64(h)
}

func (o *Outcome) probe(name string) {
	if o.Probes == nil {
		o.Probes = map[string]int{}
	}
	o.Probes[name]++
}

func (o *Outcome) mergeWorld(w *World) {
	if o.Faults == nil {
		o.Faults = map[string]int{}
	}
	for k, v := range w.Fired {
		if v > 0 {
			o.Faults[k] += v
		}
	}
	for k, v := range w.Probes {
		if o.Probes == nil {
			o.Probes = map[string]int{}
		}
		o.Probes[k] += v
	}
}

type RunOpt struct {
	KeepLog bool
	Race    bool // race-enabled binary
	Sample  bool // materialise a sample description
}

type Checker interface {
	ID() string
	// Run performs one simulated run decided entirely by the tapes.
	Run(tp *Tapes, opt RunOpt) *Outcome
	// ProbeNames lists the reach probes the checker expects to be non-zero in a batch.
	ProbeNames() []string
	Meta() CheckerMeta
}

type CheckerMeta struct {
	Level       string   // evidence level
	Rule        string   // how cases are generated and what makes one distinct/non-trivial
	Real        []string // components running real code
	Stub        []string // components that are stubs
	Assumptions []string
	QuickRuns   int
	QuickRace   int
}

var checkers = map[string]Checker{}

func Register(c Checker)    { checkers[c.ID()] = c }
func Get(id string) Checker { return checkers[id] }
func IDs() []string {
	var ids []string
	for k := range checkers {
		ids = append(ids, k)
	}
	sort.Strings(ids)
	return ids
}

func pickStrategy(g *Tape) Strategy {
	switch g.Draw(6) {
	case 0, 1:
		return Strategy{Kind: 0}
	case 2:
		return Strategy{Kind: 1, Stick: 2}
	case 3:
		return Strategy{Kind: 1, Stick: 5}
	case 4:
		return Strategy{Kind: 1, Stick: 20}
	default:
		return Strategy{Kind: 2, Depth: 1 + g.Draw(3)}
	}
}

func (s Strategy) String() string {
	switch s.Kind {
	case 1:
		return fmt.Sprintf("sticky(%d)", s.Stick)
	case 2:
		return fmt.Sprintf("pct(d=%d)", s.Depth)
	}
	return "uniform"
}
