package sim

import (
	"bufio"
	"bytes"
	"errors"
	"fmt"
	"strings"

	pongo2 "github.com/flosch/pongo2/v6"
)

// C14 - Execute variants agree; ExecuteWriter is all-or-nothing. DESIGN.md section 4 (C14).
// Single task. Programs are sampled by seed; for each program every position at which
// a call-back can fail and every position at which the caller's writer can start
// failing is enumerated. Every execution uses a freshly compiled template, so that
// state kept inside a compiled tree (C04's subject) cannot leak into this oracle.

type c14Checker struct{}

func init() { Register(c14Checker{}) }

func (c14Checker) ID() string { return "C14" }
func (c14Checker) ProbeNames() []string {
	return []string{"exec_fault_inside_include", "writer_fault_fired", "exec_fault_fired", "unbuffered_partial_output",
		"context_rejected", "genuine_exec_error", "pair_fault", "lazy_include_executed", "stdlib_writer_run", "same_template_after_failure", "exec_panic_fired", "same_context_object"}
}
func (c14Checker) Meta() CheckerMeta {
	return CheckerMeta{
		Level: "fault_enumeration",
		Rule: "programs x contexts are drawn by seed from the shared grammar (every tag, nested include/ssi/macro/block.Super/filter/spaceless/ifchanged, call-backs at output positions); " +
			"per program a discovery run counts K call-back sites and J writer calls, then EVERY exec_err_at(k) (k=1..K, two error types) x four entry points and EVERY write_eio_at(j)/write_short_at(j) (j=1..J unbuffered, j=1 buffered) is executed, plus sampled (k,j) pairs, a panic in caller code at sampled call-back positions, and writers that can also be flushed; " +
			"evaluations = engine executions; a case is non-trivial when a fault fired; distinct = distinct (program, context, entry point, fault position, fault kind)",
		Real:        []string{"pongo2 package (all four Execute* entry points, every tag/filter the generator writes)", "pongo2.FSLoader over the simulated fs.FS", "bytes.Buffer"},
		Stub:        []string{"the caller's io.Writer (recording, faulting, sticky once failed)", "context call-backs y/yv/Cb, filter vsim, tag vsim (return the injected error)", "template files (in-memory disk)"},
		Assumptions: []string{"the fault-free run of the same program/context is the reference for 'what a successful run would have produced'", "a failed writer stays failed (like a closed connection); only legal io.Writer behaviour is injected"},
		QuickRuns:   5000, QuickRace: 0,
	}
}

type c14Case struct {
	Entry string      `json:"entry"`
	Plan  []FaultSpec `json:"plan"`
}

var compileCount int

// compileMain creates the program's main template through one of the set's four creators.
func compileMain(set *pongo2.TemplateSet, sp *ProgSpec, via int) (*pongo2.Template, error) {
	switch via {
	case 1:
		return set.FromCache(sp.Main)
	case 2:
		return set.FromString(sp.Files[sp.Main])
	case 3:
		buf := []byte(sp.Files[sp.Main])
		tpl, err := set.FromBytes(buf)
		if compileCount++; compileCount%2 == 0 {
			reuseBuffer(buf) // every other caller reuses its buffer right away
		}
		return tpl, err
	}
	return set.FromFile(sp.Main)
}

func (c14Checker) Run(tp *Tapes, opt RunOpt) *Outcome {
	out := &Outcome{Faults: map[string]int{}}
	g := tp.Gen
	sp := GenProgramOpt(g, 6+g.DrawD(20, 50), true)
	cd := GenCtxDesc(g)
	if sp.BadGlobal {
		cd.BadKey = false // (never two invalid names: which one is reported depends on map order)
	}
	loaderKind := []string{"fs", "virt", "http"}[g.Draw(3)]
	via := g.Draw(4) // how the template is created: FromFile, FromCache, FromString, FromBytes
	disk := progDisk(sp)
	ph := newHasher()
	for _, k := range sortedKeys(sp.Files) {
		ph.str(k)
		ph.str(sp.Files[k])
	}
	ph.str(fmt.Sprintf("%+v%v%v%s%d", cd, sp.TrimBlocks, sp.LStripBlocks, loaderKind, via))
	out.ProgHash = uint64(ph)
	th := newHasher()
	th.u64(out.ProgHash)

	var lastCase *c14Case
	nontrivial := 0
	// one execution on a freshly compiled template in a fresh world
	wkind := 0 // kind of io.Writer handed to the engine (World.CallerWriter)
	run := func(ep int, d CtxDesc, plan []FaultSpec) (*ExecResult, string) {
		w := NewWorld(disk)
		w.Plan = plan
		w.WriterKind = wkind
		old := SetCurWorld(w)
		defer SetCurWorld(old)
		set := w.NewProgSet(sp, "P", loaderKind)
		tpl, err := compileMain(set, sp, via)
		if err != nil {
			return nil, err.Error()
		}
		sp.ApplyTplOptions(tpl)
		out.Execs++
		r := w.Exec(tpl, ep, w.BuildCtx(d), sp.Blocks)
		out.dig(r.String())
		fired := 0
		for k, v := range w.Fired {
			out.Faults[k] += v
			fired += v
		}
		if fired > 0 {
			nontrivial++
			ch := newHasher()
			ch.u64(out.ProgHash)
			ch.u64(uint64(ep))
			for _, f := range plan {
				ch.u64(uint64(f.Site)<<40 | uint64(f.Fault)<<32 | uint64(f.Occ))
			}
			out.CaseHashes = append(out.CaseHashes, uint64(ch))
			th.u64(uint64(ch))
		}
		lastCase = &c14Case{Entry: epNames[ep], Plan: plan}
		if len(w.Gets) > len(sp.Files) {
			out.probe("lazy_include_executed")
		}
		return r, ""
	}
	viol := func(class, key, detail string, exp, obs any) {
		out.addViolation(class, key, detail, exp, map[string]any{"program": sp, "context": cd, "loader": loaderKind, "case": lastCase, "observed": obs})
	}
	eps := []int{EpExecute, EpExecuteBytes, EpExecuteWriter, EpExecuteWriterUnbuffered}

	// ---- discovery: fault-free -----------------------------------------------------
	clean := CtxDesc{Variant: cd.Variant}
	var cerr string
	var ref *ExecResult
	ref, cerr = run(EpExecuteWriterUnbuffered, clean, nil) // what a successful run produces
	if cerr != "" {
		out.Discarded = true
		out.probe("compile_failed")
		out.Sample = map[string]any{"discard_reason": cerr}
		return out
	}
	if ref.Panic != "" {
		// input-determined panic without any fault: C01's matter, not decided here
		out.Discarded = true
		out.probe("discarded_input_panic")
		out.Sample = map[string]any{"discard_reason": "panic: " + ref.Panic}
		return out
	}
	refOut := ref.Written
	refFailed := ref.Failed()
	var base [4]*ExecResult
	for i, ep := range eps {
		base[i], _ = run(ep, cd, nil)
	}
	K, J := base[3].Cbs, base[3].WCalls
	obs := func(rs []*ExecResult) []string {
		var s []string
		for _, r := range rs {
			s = append(s, r.String())
		}
		return s
	}
	visible := func(r *ExecResult) string {
		if r.Ep == EpExecuteWriter || r.Ep == EpExecuteWriterUnbuffered {
			return r.Written
		}
		return r.Out
	}
	// agree: the four entry points fail in the same cases and, where they succeed,
	// produce the same bytes
	agree := func(rs []*ExecResult, what string) bool {
		anyPanic := false
		for _, r := range rs {
			if r.Panic != "" {
				anyPanic = true
				viol("panic", r.Entry+" "+what+" "+panicKey(r.Panic), fmt.Sprintf("%s panicked (%s): %s", r.Entry, what, firstLine(r.Panic)), nil, obs(rs))
			}
		}
		if anyPanic {
			return false
		}
		f0 := rs[0].Failed()
		for _, r := range rs[1:] {
			if r.Failed() != f0 {
				viol("variants_disagree", what+" fail/succeed", fmt.Sprintf("entry points disagree on failure (%s)", what), nil, obs(rs))
				return false
			}
		}
		if f0 {
			for _, r := range rs[1:] {
				if r.Err != rs[0].Err {
					viol("variants_disagree", what+" error text", fmt.Sprintf("entry points report different errors (%s)", what), nil, obs(rs))
					return false
				}
			}
			return true
		}
		for _, r := range rs[1:] {
			if visible(r) != visible(rs[0]) {
				viol("variants_disagree", what+" bytes", fmt.Sprintf("entry points produce different bytes (%s)", what), nil, obs(rs))
				return false
			}
		}
		return true
	}
	// failedShape: what each entry point may have produced when execution failed
	failedShape := func(rs []*ExecResult, what string) {
		for _, r := range rs {
			switch r.Ep {
			case EpExecute, EpExecuteBytes:
				if r.Out != "" {
					viol("output_with_error", r.Entry+" "+what, r.Entry+" returned output together with an error", "", r.String())
				}
			case EpExecuteWriter:
				if r.Written != "" || r.WCalls != 0 {
					viol("buffered_partial_write", r.Entry+" "+what, "ExecuteWriter wrote to the caller's writer although execution failed", "", r.String())
				}
			case EpExecuteWriterUnbuffered:
				if !refFailed && !strings.HasPrefix(refOut, r.Written) {
					viol("unbuffered_not_prefix", r.Entry+" "+what, "ExecuteWriterUnbuffered wrote bytes that are not a leading part of the successful output", refOut, r.String())
				}
				if r.Written != "" {
					out.probe("unbuffered_partial_output")
				}
			}
		}
	}

	// the destinations real callers hand in most often: standard-library types an engine can
	// recognise by type assertion (never failing; fault-free runs only)
	for wk := 4; wk <= 6 && len(out.Violations) == 0; wk++ {
		wkind = wk
		r1, _ := run(EpExecuteWriter, cd, nil)
		r2, _ := run(EpExecuteWriterUnbuffered, cd, nil)
		wkind = 0
		out.probe("std_writer_kinds")
		agree([]*ExecResult{base[0], r1, r2}, "fault-free, writer is a "+[]string{"*bytes.Buffer", "*strings.Builder", "*bufio.Writer"}[wk-4])
	}
	if agree(base[:], "fault-free") {
		if base[0].Failed() {
			out.probe("genuine_exec_error")
			if cd.BadKey || (cd.Clash && sp.ExportsXM) {
				out.probe("context_rejected")
				for _, r := range base {
					if r.Written != "" || r.Out != "" {
						viol("rejected_context_output", r.Entry, "a context rejected up front still produced output", "", r.String())
					}
				}
			}
			failedShape(base[:], "genuine error")
		} else if !cd.MaybeFail && !cd.BadKey && !cd.Clash && visible(base[0]) != refOut {
			viol("variants_disagree", "fault-free repeat", "the same program and context rendered differently on two fresh compiles", refOut, base[0].String())
		}
	}

	// ---- every exec_err_at(k) x four entry points --------------------------------------
	if !base[0].Failed() && len(out.Violations) == 0 {
		for k := 1; k <= K; k++ {
			for _, fk := range []uint32{FExecErr, FExecErrP2} {
				plan := []FaultSpec{{Site: KCallback, Task: -1, Op: -1, Occ: k - 1, Fault: fk, Disk: -1}}
				var rs []*ExecResult
				for _, ep := range eps {
					r, _ := run(ep, cd, plan)
					rs = append(rs, r)
				}
				what := FaultName(fk)
				out.probe("exec_fault_fired")
				if !agree(rs, what) {
					continue
				}
				if rs[0].Failed() {
					failedShape(rs, what)
				} else {
					out.probe("fault_swallowed_by_construct")
				}
			}
		}
		// ---- every writer fault position -------------------------------------------------
		for _, ep := range []int{EpExecuteWriter, EpExecuteWriterUnbuffered} {
			jmax := J
			if ep == EpExecuteWriter {
				jmax = 1
				if refOut == "" {
					jmax = 0 // nothing is ever written
				}
			}
			for j := 1; j <= jmax; j++ {
				for fi, fk := range []uint32{FWriteEIO, FWriteShort, FWriteEIO, FWriteEIO, FWriteEIO} {
					// (the later rounds hand in a writer that can also be flushed, or that has WriteString)
					wkind = []int{0, 0, 1, 2, 3}[fi]
					if wkind != 0 && (ep != EpExecuteWriter || j > 1) {
						wkind = 0
						continue
					}
					plan := []FaultSpec{{Site: KWrite, Task: -1, Op: -1, Occ: j - 1, Fault: fk, Param: uint32(g.Draw(len(WriterErrors))), Disk: -1}}
					r, _ := run(ep, cd, plan)
					what := FaultName(fk) + []string{"", " flushable writer", " flushable writer", " writer with WriteString"}[wkind]
					wkind = 0
					if r.Panic != "" {
						viol("panic", r.Entry+" "+what+" "+panicKey(r.Panic), fmt.Sprintf("%s panicked when the caller's writer failed at call %d: %s", r.Entry, j, firstLine(r.Panic)), nil, r.String())
						continue
					}
					if !r.WFailed {
						continue // the j-th call did not happen in this run
					}
					out.probe("writer_fault_fired")
					if !strings.HasPrefix(refOut, r.Written) {
						viol("writer_fault_not_prefix", r.Entry+" "+what, "bytes accepted by a failing writer are not a leading part of the successful output", refOut, r.String())
					}
					if ep == EpExecuteWriter {
						if r.err == nil {
							viol("writer_error_lost", r.Entry+" "+what, "ExecuteWriter returned nil although the caller's writer failed", "non-nil error", r.String())
						} else if !errors.Is(r.err, r.werr) {
							viol("writer_error_lost", r.Entry+" "+what+" identity", "ExecuteWriter returned an error that is not (and does not wrap) the writer's error", fmt.Sprint(r.werr), r.String())
						}
					}
				}
			}
		}
		// ---- sampled pairs (exec fault k, writer fault j) ---------------------------------
		f := tp.Fault
		if K > 0 && J > 0 {
			for n := 0; n < 3; n++ {
				k, j := f.Draw(K), f.Draw(J)
				plan := []FaultSpec{
					{Site: KCallback, Task: -1, Op: -1, Occ: k, Fault: FExecErr, Disk: -1},
					{Site: KWrite, Task: -1, Op: -1, Occ: j, Fault: []uint32{FWriteEIO, FWriteShort}[f.Draw(2)], Disk: -1},
				}
				r, _ := run(EpExecuteWriterUnbuffered, cd, plan)
				out.probe("pair_fault")
				if r.Panic != "" {
					viol("panic", r.Entry+" pair "+panicKey(r.Panic), "ExecuteWriterUnbuffered panicked under a call-back fault plus a writer fault: "+firstLine(r.Panic), nil, r.String())
				} else if !strings.HasPrefix(refOut, r.Written) {
					viol("unbuffered_not_prefix", r.Entry+" pair", "bytes written under combined faults are not a leading part of the successful output", refOut, r.String())
				}
			}
		}
	}
	// ---- the caller's own code panics at the k-th call-back ------------------------------------
	// pongo2 promises nothing about surviving that, and nothing is asked here except what the
	// statement says about a failed execution: whatever way the call ends, ExecuteWriter has
	// handed nothing to the caller's writer, the unbuffered variant at most a leading part.
	if !base[0].Failed() && len(out.Violations) == 0 && K > 0 {
		seenK := map[int]bool{}
		for _, k := range []int{1, K, 1 + tp.Fault.Draw(K), 1 + tp.Fault.Draw(K)} {
			if seenK[k] {
				continue
			}
			seenK[k] = true
			plan := []FaultSpec{{Site: KCallback, Task: -1, Op: -1, Occ: k - 1, Fault: FExecPanic, Disk: -1}}
			var prs []*ExecResult
			for _, ep := range eps {
				r, _ := run(ep, cd, plan)
				prs = append(prs, r)
			}
			for _, r := range prs[1:] {
				// "fail in the same cases": an entry point that reports success (with a truncated
				// document) where the others die is not the same case
				if r.Failed() != prs[0].Failed() {
					viol("variants_disagree", "exec_panic_at fail/succeed", "entry points disagree on failing when caller code panics during the execution", nil, obs(prs))
					break
				}
			}
			for _, r := range prs[2:] {
				ep := r.Ep
				out.probe("exec_panic_fired")
				if !r.Failed() {
					continue
				}
				if ep == EpExecuteWriter && (r.Written != "" || r.WCalls != 0) {
					viol("buffered_partial_write", r.Entry+" exec_panic_at", "ExecuteWriter wrote to the caller's writer although the execution died (panic in caller code)", "", r.String())
				}
				if ep == EpExecuteWriterUnbuffered && !strings.HasPrefix(refOut, r.Written) {
					viol("unbuffered_not_prefix", r.Entry+" exec_panic_at", "ExecuteWriterUnbuffered wrote bytes that are not a leading part of the successful output", refOut, r.String())
				}
			}
		}
	}
	// ---- ExecuteWriter into standard-library writers ------------------------------------------
	// The all-or-nothing promise must not depend on what kind of io.Writer the caller hands in.
	stdWriter := func(kind int, d CtxDesc, plan []FaultSpec) (written string, err error, pan string) {
		w := NewWorld(disk)
		w.Plan = plan
		old := SetCurWorld(w)
		defer SetCurWorld(old)
		set := w.NewProgSet(sp, "P", loaderKind)
		tpl, cerr := compileMain(set, sp, via)
		if cerr != nil {
			return "", cerr, ""
		}
		sp.ApplyTplOptions(tpl)
		out.Execs++
		defer func() {
			if p := recover(); p != nil {
				pan = fmt.Sprintf("%v\n%s", p, pongoFrames(shortStack()))
			}
		}()
		lastCase = &c14Case{Entry: "ExecuteWriter->" + []string{"*bytes.Buffer", "*strings.Builder", "*bufio.Writer"}[kind], Plan: plan}
		switch kind {
		case 0:
			var b bytes.Buffer
			err = tpl.ExecuteWriter(w.BuildCtx(d), &b)
			written = b.String()
		case 1:
			var b strings.Builder
			err = tpl.ExecuteWriter(w.BuildCtx(d), &b)
			written = b.String()
		case 2:
			var sink bytes.Buffer
			bw := bufio.NewWriterSize(&sink, 16)
			err = tpl.ExecuteWriter(w.BuildCtx(d), bw)
			bw.Flush()
			written = sink.String()
		}
		return written, err, ""
	}
	if !base[0].Failed() && len(out.Violations) == 0 {
		ks := []int{0}
		if K > 0 {
			ks = append(ks, 1, K, 1+tp.Fault.Draw(K))
		}
		for _, k := range ks {
			var plan []FaultSpec
			if k > 0 {
				plan = []FaultSpec{{Site: KCallback, Task: -1, Op: -1, Occ: k - 1, Fault: FExecErr, Disk: -1}}
			}
			for kind := 0; kind < 3; kind++ {
				written, err, pan := stdWriter(kind, cd, plan)
				out.probe("stdlib_writer_run")
				switch {
				case pan != "":
					viol("panic", lastCase.Entry+" "+panicKey(pan), "ExecuteWriter panicked: "+firstLine(pan), nil, pan)
				case err != nil && written != "":
					viol("buffered_partial_write", lastCase.Entry, "ExecuteWriter wrote to the caller's writer although execution failed", "", written)
				case err == nil && written != refOut:
					viol("variants_disagree", lastCase.Entry+" bytes", "ExecuteWriter into a standard-library writer produced other bytes than the other entry points", refOut, written)
				}
			}
		}
	}

	// ---- the same compiled template across entry points, after a failed execution ------------------
	// "For the same template and context" the four entry points agree - also when an earlier
	// execution of that very template died half-way through one of them.
	if !base[0].Failed() && len(out.Violations) == 0 && K > 0 {
		w := NewWorld(disk)
		old := SetCurWorld(w)
		set := w.NewProgSet(sp, "P", loaderKind)
		tpl, terr := compileMain(set, sp, via)
		if terr == nil {
			sp.ApplyTplOptions(tpl)
			opn := 0
			// "the same template and context": one Context value, the very same Go objects, is
			// handed to every one of these calls - the engine may read it, nothing else
			sharedCtx := w.BuildCtx(cd)
			on := func(ep int, plan []FaultSpec) *ExecResult {
				for i := range plan {
					plan[i].Op = opn
				}
				w.Plan = plan
				w.active = map[int]int{}
				w.OpBegin(opn)
				r := w.Exec(tpl, ep, sharedCtx, sp.Blocks)
				w.OpEnd(opn)
				opn++
				out.Execs++
				return r
			}
			{
				// first of all the four entry points in turn, fault-free, on that one Context value
				lastCase = &c14Case{Entry: "same template and the same Context value: all four entry points in turn"}
				var rs []*ExecResult
				for _, ep := range eps {
					rs = append(rs, on(ep, nil))
				}
				out.probe("same_context_object")
				if agree(rs, "same template and Context value") && !cd.MaybeFail {
					for _, r := range rs {
						if !r.Failed() && visible(r) != refOut {
							viol("variants_disagree", "same template and Context value bytes", "handing the same Context value to the entry points one after the other changes what is rendered", refOut, obs(rs))
							break
						}
					}
				}
			}
			for n := 0; n < 2 && len(out.Violations) == 0; n++ {
				k := tp.Fault.Draw(K)
				failVia := eps[tp.Fault.Draw(len(eps))]
				fr := on(failVia, []FaultSpec{{Site: KCallback, Task: -1, Occ: k, Fault: FExecErr, Disk: -1}})
				lastCase = &c14Case{Entry: "same template: " + epNames[failVia] + " failed at call-back " + fmt.Sprint(k+1) + ", then all four entry points", Plan: nil}
				var rs []*ExecResult
				for _, ep := range eps {
					rs = append(rs, on(ep, nil))
				}
				out.probe("same_template_after_failure")
				for _, r := range rs {
					if r.Alias != "" {
						viol("result_aliased", "ExecuteBytes", "a byte slice returned by ExecuteBytes was modified by a later execution: "+r.Alias, nil, obs(rs))
					}
				}
				if !fr.Failed() {
					continue
				}
				if agree(rs, "same template after a failed execution") {
					for _, r := range rs {
						if !r.Failed() && visible(r) != refOut {
							viol("variants_disagree", "same template after a failed execution bytes", "after a failed execution of the same compiled template an entry point renders something else than a successful run would", refOut, obs(rs))
							break
						}
					}
				}
			}
			// endurance: many failed writes on one set must not wear it out
			if tp.Fault.Draw(12) == 0 && refOut != "" {
				for n := 0; n < 130; n++ {
					on(EpExecuteWriter, []FaultSpec{{Site: KWrite, Task: -1, Occ: 0, Fault: FWriteEIO, Disk: -1}})
				}
				lastCase = &c14Case{Entry: "same set and template after 130 executions whose writer failed"}
				var rs []*ExecResult
				for _, ep := range eps {
					rs = append(rs, on(ep, nil))
				}
				out.probe("endurance_writer_failures")
				if agree(rs, "after 130 failed writes") && !rs[0].Failed() && visible(rs[0]) != refOut {
					viol("variants_disagree", "after 130 failed writes bytes", "after many executions whose writer failed the template renders something else", refOut, obs(rs))
				}
			}
			// ... and neither must many executions that died at a call-back (inside includes,
			// macros, blocks, wherever the program has them)
			if tp.Fault.Draw(12) == 1 && refOut != "" {
				for n := 0; n < 130; n++ {
					on(eps[n%len(eps)], []FaultSpec{{Site: KCallback, Task: -1, Occ: tp.Fault.Draw(K), Fault: FExecErr, Disk: -1}})
				}
				lastCase = &c14Case{Entry: "same set and template after 130 executions that failed at a call-back"}
				var rs []*ExecResult
				for _, ep := range eps {
					rs = append(rs, on(ep, nil))
				}
				out.probe("endurance_exec_failures")
				if agree(rs, "after 130 failed executions") && !rs[0].Failed() && visible(rs[0]) != refOut {
					viol("variants_disagree", "after 130 failed executions bytes", "after many executions that failed the template renders something else", refOut, obs(rs))
				} else if rs[0].Failed() && !cd.MaybeFail && !cd.BadKey && !cd.Clash {
					viol("variants_disagree", "after 130 failed executions fail/succeed", "after many executions that failed a fault-free execution fails", refOut, obs(rs))
				}
			}
			// the same template with a nil Context, before and after the caller changes a global
			onNil := func(ep int) *ExecResult {
				w.Plan = nil
				w.active = map[int]int{}
				w.OpBegin(opn)
				r := w.Exec(tpl, ep, nil, sp.Blocks)
				w.OpEnd(opn)
				opn++
				out.Execs++
				return r
			}
			for round := 0; round < 3 && len(out.Violations) == 0; round++ {
				lastCase = &c14Case{Entry: fmt.Sprintf("same template, nil Context, round %d (set.Globals[\"glob\"] reassigned between the rounds; round 2 with a global whose name is not an identifier)", round)}
				var rs []*ExecResult
				for _, ep := range eps {
					rs = append(rs, onNil(ep))
				}
				out.probe("nil_context_rounds")
				agree(rs, "nil context, globals changed between rounds")
				set.Globals["glob"] = "G-changed<&>"
				if round == 1 {
					set.Globals["build-id"] = "b1" // whatever the engine makes of it, all four must make the same
				}
			}
		}
		SetCurWorld(old)
	}

	for _, t := range sp.Tags {
		if t == "include" && K > 0 {
			out.probe("exec_fault_inside_include")
			break
		}
	}
	out.Steps = out.Execs
	out.TraceHash = uint64(th)
	out.NonTrivial = nontrivial > 0
	out.Evals = out.Execs
	if opt.Sample {
		out.Sample = map[string]any{"program": sp, "context": cd, "loader": loaderKind, "callback_sites_K": K, "writer_calls_J": J,
			"fault_free": obs(base[:]), "executions": out.Execs}
	}
	return out
}
