package sim

// Choice tapes. Every decision of a run is a Draw on one of three tapes; a run is a
// pure function of (tapes, code). In generate mode a tape is fed by a private PRNG
// and records what it hands out; in replay mode it hands out recorded values and 0
// once exhausted. Nothing here reads a clock or the global math/rand.

type rng struct{ s uint64 }

func splitmix64(x uint64) uint64 {
	x += 0x9E3779B97F4A7C15
	z := x
	z = (z ^ (z >> 30)) * 0xBF58476D1CE4E5B9
	z = (z ^ (z >> 27)) * 0x94D049BB133111EB
	return z ^ (z >> 31)
}

func (r *rng) next() uint64 {
	r.s += 0x9E3779B97F4A7C15
	z := r.s
	z = (z ^ (z >> 30)) * 0xBF58476D1CE4E5B9
	z = (z ^ (z >> 27)) * 0x94D049BB133111EB
	return z ^ (z >> 31)
}

// MixSeed derives the seed of run i of a batch for a property.
func MixSeed(base uint64, prop string, i uint64) uint64 {
	h := splitmix64(base ^ 0xA5A5A5A5DEADBEEF)
	for _, c := range []byte(prop) {
		h = splitmix64(h ^ uint64(c))
	}
	return splitmix64(h ^ splitmix64(i))
}

type Tape struct {
	Vals   []uint32
	pos    int
	r      *rng
	replay bool
	// Deep: this run uses the larger bounds of the thorough tier (more tasks, longer
	// histories, bigger programs). Part of the run's identity: stored in replay files.
	Deep bool
}

// DeepFrom: run indices from here on use the deep bounds (the thorough tier gives half of
// its workers indices in this range; the quick tier never reaches it).
const DeepFrom = uint64(1) << 40

// DrawD draws below n, or below deep when the run uses the deep bounds.
func (t *Tape) DrawD(n, deep int) int {
	if t.Deep {
		return t.Draw(deep)
	}
	return t.Draw(n)
}

func NewGenTape(seed uint64) *Tape { return &Tape{r: &rng{s: seed}} }

func NewReplayTape(vals []uint32) *Tape {
	v := make([]uint32, len(vals))
	copy(v, vals)
	return &Tape{Vals: v, replay: true}
}

// Draw returns a value in [0,n). n<=1 returns 0 without consuming anything.
func (t *Tape) Draw(n int) int {
	if n <= 1 {
		return 0
	}
	if t.replay {
		if t.pos >= len(t.Vals) {
			t.pos++
			return 0
		}
		v := t.Vals[t.pos]
		t.pos++
		return int(v % uint32(n))
	}
	v := uint32(t.r.next()>>33) % uint32(n)
	t.Vals = append(t.Vals, v)
	t.pos++
	return int(v)
}

// Chance is true with probability num/den; the "simple" outcome (0) is false.
func (t *Tape) Chance(num, den int) bool {
	return t.Draw(den) >= den-num
}

// Pos is the number of draws made so far.
func (t *Tape) Pos() int { return t.pos }

// Used returns the recorded prefix that was actually consumed.
func (t *Tape) Used() []uint32 {
	n := t.pos
	if n > len(t.Vals) {
		n = len(t.Vals)
	}
	out := make([]uint32, n)
	copy(out, t.Vals[:n])
	return out
}

type Tapes struct {
	Gen, Sched, Fault *Tape
	Deep              bool
}

// TapesForRun returns fresh generating tapes for run idx of a batch.
func TapesForRun(base uint64, prop string, idx uint64) *Tapes {
	tp := NewGenTapes(MixSeed(base, prop, idx))
	tp.setDeep(idx >= DeepFrom)
	return tp
}

func (t *Tapes) setDeep(d bool) {
	t.Deep, t.Gen.Deep, t.Sched.Deep, t.Fault.Deep = d, d, d, d
}

func NewGenTapes(seed uint64) *Tapes {
	return &Tapes{
		Gen:   NewGenTape(splitmix64(seed ^ 1)),
		Sched: NewGenTape(splitmix64(seed ^ 2)),
		Fault: NewGenTape(splitmix64(seed ^ 3)),
	}
}

type TapeVals struct {
	Gen   []uint32 `json:"gen"`
	Sched []uint32 `json:"sched"`
	Fault []uint32 `json:"fault"`
	Deep  bool     `json:"deep,omitempty"`
}

func (t *Tapes) Snapshot() TapeVals {
	return TapeVals{Gen: t.Gen.Used(), Sched: t.Sched.Used(), Fault: t.Fault.Used(), Deep: t.Deep}
}

func ReplayTapes(v TapeVals) *Tapes {
	tp := &Tapes{Gen: NewReplayTape(v.Gen), Sched: NewReplayTape(v.Sched), Fault: NewReplayTape(v.Fault)}
	tp.setDeep(v.Deep)
	return tp
}

// fnv-1a, used for distinctness hashes of traces.
type hasher uint64

func newHasher() hasher { return 0xcbf29ce484222325 }
func (h *hasher) str(s string) {
	x := uint64(*h)
	for i := 0; i < len(s); i++ {
		x ^= uint64(s[i])
		x *= 0x100000001b3
	}
	x ^= 0xff
	x *= 0x100000001b3
	*h = hasher(x)
}
func (h *hasher) u64(v uint64) {
	x := uint64(*h)
	for i := 0; i < 8; i++ {
		x ^= v & 0xff
		x *= 0x100000001b3
		v >>= 8
	}
	*h = hasher(x)
}
