//go:build instr

package sim

import pongo2 "github.com/flosch/pongo2/v6"

// Built against the astyield-instrumented scratch copy of the engine: the scheduler may
// pre-empt a task between any two statements, and locks the sources do not announce
// with verifPoint are announced automatically.
const Instrumented = true

func init() {
	pongo2.VerifYield = func() {
		// (once a task has been found blocked in a synchronisation primitive, tasks are
		// identified by goroutine id, which is far too slow to do at every statement:
		// forced pre-emption is then off for the rest of the phase)
		if tearingDown.Load() {
			return
		}
		if tc := running.Load(); tc != nil {
			tc.YieldPoint()
		}
	}
	pongo2.VerifHot = func() {
		if tearingDown.Load() {
			return
		}
		if tc := running.Load(); tc != nil {
			tc.HotPoint()
		}
	}
	pongo2.VerifNoYield = func(delta int) {
		if tc := CurrentTask(); tc != nil {
			tc.noYield += delta
		}
	}
	pongo2.VerifAutoLock = func(try func() bool, unlock func()) {
		tc := CurrentTask()
		if tc == nil {
			if !try() {
				panic(SelfDeadlock{Point: "a lock the engine already holds"})
			}
			unlock()
			return
		}
		tc.Park(KLock, 0, 0, "auto")
		for !try() {
			tc.Park(KLockWait, 0, 0, "auto")
		}
		unlock()
	}
}
