package sim

import (
	"fmt"
	"sort"
	"strings"

	pongo2 "github.com/flosch/pongo2/v6"
)

// Grammar-directed program generator shared by C04, C05 and C14 (DESIGN.md appendix A).
// It only has to produce programs that mostly compile, exercise every tag, put
// call-backs (yield/fault points) inside bodies, and avoid the engine's own
// nondeterminism (clock, randomness, unsorted map iteration). Semantics are never
// predicted: the oracles are differential.

type ProgSpec struct {
	Files        map[string]string `json:"files"`
	Main         string            `json:"main"`
	TrimBlocks   bool              `json:"trim_blocks"`
	LStripBlocks bool              `json:"lstrip_blocks"`
	// OptsOnTemplate: the caller sets TrimBlocks/LStripBlocks on the compiled template
	// (tpl.Options, "before calling Execute") instead of on the set
	OptsOnTemplate bool     `json:"options_set_on_template,omitempty"`
	Blocks         []string `json:"blocks,omitempty"`
	Off            []string `json:"constructs_off,omitempty"`
	Tags           []string `json:"tags_used"`
	// NoGlobals: the set is created without any Globals
	NoGlobals bool `json:"no_globals,omitempty"`
	// BadGlobal: the set's Globals carry a name that is not an identifier (every execution with a
	// context is rejected - the first one and all later ones)
	BadGlobal bool `json:"bad_global,omitempty"`
	// DebugSet: the set's Debug flag is on (single-task checks only)
	DebugSet bool `json:"debug_set,omitempty"`
	// TwoLoaders: the set has a stack of two loaders (see progDisk)
	TwoLoaders bool `json:"two_loaders,omitempty"`
	// ExportsXM: main.tpl defines the exported macro xm (a context key "xm" is then rejected)
	ExportsXM bool `json:"exports_xm,omitempty"`
}

var textPool = []string{"A", " b ", "\n", "\n  ", "<p>", "</p> <b>", "ü€", "x&y", "  \n\n", "'q'", "T\n", "\t", "end.", "<i> </i>", "0", "\n\n", "\n\n\nX", "\n \t"}

var allConstructs = []string{"text", "var", "y", "vsim", "if", "ifequal", "ifnotequal", "for", "with", "set", "macro", "import",
	"include", "lazyinclude", "cycle", "ifchanged", "filtertag", "spaceless", "autoescape", "firstof", "widthratio",
	"templatetag", "lorem", "now", "comment", "verbatim", "ssi", "ssiplain", "failexpr", "poly", "lazyvar", "big", "recmacro", "listlit", "ctxfunc", "hiddenrandom", "lookup", "ctxmut", "inlong", "capadd", "wsctl"}

// filters with the argument forms the generator writes for them
var filterForms = map[string][]string{
	"escape": {""}, "e": {""}, "safe": {""}, "escapejs": {""}, "addslashes": {""}, "capfirst": {""}, "lower": {""}, "upper": {""},
	"title": {""}, "length": {""}, "default": {`:"d"`}, "default_if_none": {`:"n"`}, "first": {""}, "last": {""},
	"linebreaks": {""}, "linebreaksbr": {""}, "linenumbers": {""}, "make_list": {""}, "phone2numeric": {""}, "pluralize": {"", `:"es"`},
	"striptags": {""}, "wordcount": {""}, "urlencode": {""}, "iriencode": {""}, "urlize": {""}, "float": {""}, "integer": {""},
	"yesno": {"", `:"a,b,c"`}, "cut": {`:"a"`, `:" "`}, "add": {":2", `:"x"`, ":n1"}, "center": {":9"}, "ljust": {":7"}, "rjust": {":7"},
	"floatformat": {"", ":2"}, "get_digit": {":1"}, "divisibleby": {":2"}, "length_is": {":3"}, "truncatechars": {":4"},
	"truncatewords": {":2"}, "truncatechars_html": {":5"}, "truncatewords_html": {":2"}, "wordwrap": {":2"},
	"stringformat": {`:"%v"`, `:"%5s"`}, "slice": {`:"1:2"`, `:":1"`}, "split": {`:","`}, "join": {`:"-"`}, "removetags": {`:"b"`},
	"urlizetrunc": {":10"}, "vsim": {""}, "date": {`:"2006"`}, "time": {`:"15:04"`},
}

var excludedFilters = map[string]bool{"random": true}

var filterVocab []string // sorted, computed once from the registry

func initVocab() {
	if filterVocab != nil {
		return
	}
	for _, f := range pongo2.VerifRegisteredFilters() {
		if excludedFilters[f] || strings.HasPrefix(f, "probe_") {
			continue
		}
		if _, ok := filterForms[f]; !ok {
			filterForms[f] = []string{""} // registered but unknown to the generator: used without argument
		}
		filterVocab = append(filterVocab, f)
	}
	sort.Strings(filterVocab)
}

var knownTags = map[string]bool{"autoescape": true, "block": true, "comment": true, "cycle": true, "extends": true, "filter": true,
	"firstof": true, "for": true, "if": true, "ifchanged": true, "ifequal": true, "ifnotequal": true, "import": true, "include": true,
	"lorem": true, "macro": true, "now": true, "set": true, "spaceless": true, "ssi": true, "templatetag": true, "widthratio": true,
	"with": true, "vsim": true}

// UncoveredTags lists registered tags the generator never writes.
func UncoveredTags() []string {
	var u []string
	for _, t := range pongo2.VerifRegisteredTags() {
		if !knownTags[t] && !strings.HasPrefix(t, "probe_") {
			u = append(u, t)
		}
	}
	return u
}

type progGen struct {
	g        *Tape
	sp       *ProgSpec
	off      map[string]bool
	budget   int
	locals   []string
	macros   []string // callable macro names (1..2 string args)
	cycles   []string
	loopVars []string
	uniq     int
	fileIdx  int // index of the include file being generated (-1: main/base)
	tags     map[string]bool
	inMacro  bool
	heavyOK  bool
	hugeUsed bool
}

func (p *progGen) pick(ss []string) string { return ss[p.g.Draw(len(ss))] }
func (p *progGen) id(prefix string) string {
	p.uniq++
	return fmt.Sprintf("%s%d", prefix, p.uniq)
}

func (p *progGen) strE() string {
	opts := []string{"s1", "s2", `"lit"`, "st.Name", "mp.k1", "strs.0", "yv(s1)", `st.Greet("x")`, "strg", "st.Next.Name", `""`, "nl", "glob", "glob"}
	opts = append(opts, p.locals...)
	opts = append(opts, p.loopVars...)
	e := p.pick(opts)
	return e
}

func (p *progGen) intE() string {
	opts := []string{"n1", "n2", "3", "n1 + n2", "n1 * 2", "lst|length", "fn_add(n1, 2)", "st.Age", "n2 - 1", "7 % 3", "f1", "-n1", "(n1 + 1) * n2"}
	if len(p.loopVars) > 0 {
		opts = append(opts, "forloop.Counter", "forloop.Revcounter0")
	}
	return p.pick(opts)
}

func (p *progGen) boolE() string {
	opts := []string{"b1", "n1 > n2", `s1 == "abc"`, "not b1", "n1 in lst", "b1 and n1", "true", "s2", "lst", "n1 <= 3 or b1", "nl", `"a" in strs`, "!b1 || n2 == 2", "f1 > 1"}
	if len(p.loopVars) > 0 {
		opts = append(opts, "forloop.First", "forloop.Last")
	}
	return p.pick(opts)
}

// intE2: a simple integer operand (no spaces), usable as a call argument
func (p *progGen) intE2() string {
	return p.pick([]string{"n1", "3", "st.Age", "7"})
}

func (p *progGen) anyE() string {
	switch p.g.Draw(4) {
	case 0:
		return p.intE()
	case 1:
		return p.boolE()
	}
	return p.strE()
}

func (p *progGen) filters(max int) string {
	n := p.g.Draw(max + 1)
	s := ""
	for i := 0; i < n; i++ {
		f := filterVocab[p.g.Draw(len(filterVocab))]
		s += "|" + f + p.pick(filterForms[f])
	}
	return s
}

func (p *progGen) outExpr() string {
	e := p.anyE()
	if strings.ContainsAny(e, " ") && p.g.Draw(2) == 0 {
		return e // operators and filters do not mix without care; keep compound expressions bare
	}
	if strings.ContainsAny(e, " ") {
		return e
	}
	return e + p.filters(3)
}

func (p *progGen) enabled() []string {
	var en []string
	for _, c := range allConstructs {
		if p.off[c] {
			continue
		}
		if p.inMacro && (c == "macro" || c == "import") {
			continue
		}
		en = append(en, c)
	}
	return en
}

func (p *progGen) body(b *strings.Builder, depth int) {
	n := 1 + p.g.Draw(4)
	for i := 0; i < n && p.budget > 0; i++ {
		p.node(b, depth)
	}
}

func (p *progGen) use(tag string) { p.tags[tag] = true }

func (p *progGen) node(b *strings.Builder, depth int) {
	p.budget--
	en := p.enabled()
	c := "text"
	// a third of the nodes is literal text (what TrimBlocks/LStripBlocks, spaceless and the
	// writers act on); the rest is spread over the enabled constructs
	if len(en) > 0 && p.g.Draw(3) != 0 {
		c = en[p.g.Draw(len(en))]
	}
	if depth >= 4 {
		switch c {
		case "if", "for", "with", "macro", "include", "lazyinclude", "ifchanged", "filtertag", "spaceless", "autoescape", "ifequal", "ifnotequal", "ssi":
			c = "var"
		}
	}
	switch c {
	case "text":
		b.WriteString(p.pick(textPool))
	case "var":
		// (one in three with whitespace control on one or both sides)
		fmt.Fprintf(b, p.pick([]string{"{{ %s }}", "{{ %s }}", "{{ %s }}", "{{ %s }}", "{{- %s }}", "{{ %s -}}"}), p.outExpr())
	case "y":
		switch p.g.Draw(4) {
		case 0:
			b.WriteString("{{ st.Cb() }}")
		case 1:
			fmt.Fprintf(b, "{{ yv(%s) }}", p.strE())
		default:
			b.WriteString("{{ y() }}")
		}
	case "vsim":
		p.use("vsim")
		if p.g.Draw(2) == 0 {
			b.WriteString("{% vsim %}")
		} else {
			fmt.Fprintf(b, "{{ %s|vsim }}", p.strE())
		}
	case "hiddenrandom":
		// constructs documented to depend on randomness or the clock are executed, but in
		// a position where only the (constant) truthiness of their output matters
		p.use("macro")
		m := p.id("hr")
		inner := p.pick([]string{"{% lorem 3 w random %}", "{% lorem 2 p random %}", `{% now "2006-01-02 15:04:05" %}`, "{{ s2|random }}x", "{{ strs|random }}x"})
		fmt.Fprintf(b, "{%% macro %s() %%}.%s{%% endmacro %%}{%% if %s() %%}{%% endif %%}", m, inner, m)
	case "capadd":
		// lists glued together by a filter: whatever the engine makes of it, the caller's list is
		// the caller's (also the part of its backing array behind its length)
		fmt.Fprintf(b, "{{ capl|add:strs|length }}{{ capl|join:\"+\" }}")
	case "inlong":
		// membership in a long list of the caller's
		fmt.Fprintf(b, "{%% if %s in longs %%}in{%% else %%}out{%% endif %%}", p.pick([]string{`"k7"`, `"k14"`, `"k21"`, "s1", `"k46"`}))
	case "lookup":
		// bare variable lookups, some of which fail for some context shapes
		fmt.Fprintf(b, "{{ %s }}", p.pick([]string{"st.Name", "mp.k1", "lst.0", "strs.1", "n1.Foo", "mp.0", "s1.x", "fn_maybe", "poly.Name", "st.Next.Age", "nl.a.b", "lst.9", "f1.z"}))
	case "ctxmut":
		// the caller's own function edits the caller's Context map while it is being rendered
		// (single-task checks only: a map shared by concurrent executions must not be written)
		b.WriteString("{{ mutk }}{{ mut() }}{{ mutk }}")
	case "ctxfunc":
		// context functions that take the implicit *ExecutionContext, with various arities
		switch p.g.Draw(5) {
		case 0:
			b.WriteString("{{ fnc0() }}")
		case 1:
			fmt.Fprintf(b, "{{ fnc1(%s) }}", p.strE())
		case 2:
			fmt.Fprintf(b, "{{ fnc3(%s, %s, 3) }}", p.strE(), p.intE2())
		case 3:
			fmt.Fprintf(b, "{{ fnc5(1, %s, 3, %s, 5) }}", p.strE(), p.strE())
		default:
			fmt.Fprintf(b, "{{ fnv(%s, 2, %s) }}", p.strE(), p.strE())
		}
	case "listlit":
		// literal lists: iterated plain, sorted and reversed, also through a variable
		p.use("for")
		lit := p.pick([]string{"[10, 9, 100, 1]", `["b", "a", "c"]`, "[n1, 2, n2]", `[s1, "m", s2]`, "[3]"})
		v := p.id("it")
		switch p.g.Draw(3) {
		case 0:
			fmt.Fprintf(b, "{%% for %s in %s%s %%}{{ %s }},{%% endfor %%}", v, lit, p.pick([]string{"", " sorted", " reversed", " reversed sorted"}), v)
		case 1:
			lv := p.id("ll")
			p.use("set")
			fmt.Fprintf(b, "{%% set %s = %s %%}{%% if b1 %%}{%% for %s in %s sorted %%}{{ %s }};{%% endfor %%}{%% endif %%}{%% for %s in %s %%}{{ %s }},{%% endfor %%}", lv, lit, v, lv, v, v, lv, v)
		default:
			fmt.Fprintf(b, "{{ %s|join:\"-\" }}{{ %s|length }}{{ %s|first }}", lit, lit, lit)
		}
	case "poly":
		// the same path resolves through a method, a map key or a struct field depending on the context
		fmt.Fprintf(b, "{{ %s }}", p.pick([]string{"poly.Name", "poly.Title", "poly.Name|upper", "poly.Kids.0", "poly.Nick", "poly2.Name", "poly2.Title", "poly2.Name|lower", "anon.Name", "anon.City", "loc.Name", "loc.City"}))
	case "lazyvar":
		// the file a lazy include names depends on the context
		p.use("include")
		if p.fileIdx >= 0 {
			b.WriteString("{{ poly.Name }}")
			return
		}
		b.WriteString("{% include lzv")
		p.includeTail(b)
	case "big":
		if p.g.Draw(6) == 0 && p.heavyOK && !p.hugeUsed {
			// > 1 MiB of output in one go: once per program, and only in the single-task checks
			// (under the race detector and statement-level instrumentation, times tasks, times
			// solo references, one such value costs minutes)
			p.hugeUsed = true
			b.WriteString("{{ huge }}")
			return
		}
		fmt.Fprintf(b, "{{ bigs%s }}", p.pick([]string{"", "|length", "|upper", "|truncatechars:20"}))
	case "recmacro":
		if p.inMacro || p.fileIdx >= 0 {
			b.WriteString("{{ rdepth }}")
			return
		}
		p.use("macro")
		m := p.id("rec")
		fmt.Fprintf(b, "{%% macro %s(n) %%}{%% if n > 0 %%}{{ %s(n - 1) }}{%% else %%}<bottom{{ y() }}>{%% endif %%}{%% endmacro %%}{{ %s(rdepth) }}", m, m, m)
	case "failexpr":
		// fails in some contexts only (fn_maybe errors when the context says so)
		b.WriteString("{{ fn_maybe() }}")
	case "if":
		p.use("if")
		fmt.Fprintf(b, "{%% if %s %%}", p.boolE())
		p.body(b, depth+1)
		if p.g.Draw(3) == 0 {
			fmt.Fprintf(b, "{%% elif %s %%}", p.boolE())
			p.body(b, depth+1)
		}
		if p.g.Draw(2) == 0 {
			b.WriteString("{% else %}")
			p.body(b, depth+1)
		}
		b.WriteString("{% endif %}")
	case "ifequal", "ifnotequal":
		p.use(c)
		fmt.Fprintf(b, "{%% %s %s %s %%}", c, p.anyE2(), p.anyE2())
		p.body(b, depth+1)
		if p.g.Draw(2) == 0 {
			b.WriteString("{% else %}")
			p.body(b, depth+1)
		}
		fmt.Fprintf(b, "{%% end%s %%}", c)
	case "for":
		p.use("for")
		v := p.id("it")
		switch p.g.Draw(6) {
		case 0:
			fmt.Fprintf(b, "{%% for %s in lst %%}", v)
		case 1:
			fmt.Fprintf(b, "{%% for %s in strs reversed %%}", v)
		case 2:
			k := p.id("k")
			fmt.Fprintf(b, "{%% for %s, %s in mp sorted %%}", k, v)
		case 3:
			fmt.Fprintf(b, "{%% for %s in st.Tags %%}", v)
		case 4:
			fmt.Fprintf(b, "{%% for %s in nl %%}", v)
		default:
			fmt.Fprintf(b, "{%% for %s in strs sorted %%}", v)
		}
		p.loopVars = append(p.loopVars, v)
		if p.g.Draw(2) == 0 {
			b.WriteString("{{ y() }}")
		}
		p.body(b, depth+1)
		p.loopVars = p.loopVars[:len(p.loopVars)-1]
		if p.g.Draw(3) == 0 {
			b.WriteString("{% empty %}")
			p.body(b, depth+1)
		}
		b.WriteString("{% endfor %}")
	case "with":
		p.use("with")
		v := p.id("w")
		switch p.g.Draw(4) {
		case 0:
			fmt.Fprintf(b, "{%% with %s as %s %%}", p.strE(), v)
		case 1:
			// two pairs, the second mentions the name the first one binds: pairs are evaluated in
			// the surrounding scope, where that name means nothing (yet) - whatever order the
			// engine takes them in
			v2 := p.id("w")
			fmt.Fprintf(b, "{%% with %s=%s %s=%s %%}[{{ %s }}]", v, p.strE(), v2, v, v2)
		default:
			fmt.Fprintf(b, "{%% with %s=%s %%}", v, p.strE())
		}
		p.locals = append(p.locals, v)
		p.body(b, depth+1)
		p.locals = p.locals[:len(p.locals)-1]
		b.WriteString("{% endwith %}")
	case "set":
		p.use("set")
		v := p.id("sv")
		fmt.Fprintf(b, "{%% set %s = %s %%}", v, p.strE())
		if !p.inMacro && depth == 0 {
			p.locals = append(p.locals, v)
		}
	case "macro":
		p.use("macro")
		m := p.id("m")
		// the default is a literal, a name read from the context, or a literal whose filter
		// parameter is read from the context (what it yields differs between executions)
		dflt := p.pick([]string{`"dflt"`, `"dflt"`, `"d-"|add:s1`, `s2`, `"n"|add:st.Name|upper`})
		fmt.Fprintf(b, `{%% macro %s(a, b=%s) %%}<{{ a }}|{{ b }}`, m, dflt)
		was := p.inMacro
		p.inMacro = true
		savedLocals, savedLoops := p.locals, p.loopVars
		p.locals, p.loopVars = []string{"a", "b"}, nil
		p.body(b, depth+2)
		p.locals, p.loopVars = savedLocals, savedLoops
		p.inMacro = was
		b.WriteString(">{% endmacro %}")
		if depth == 0 {
			p.macros = append(p.macros, m)
		}
		switch p.g.Draw(3) {
		case 0:
			// the shape of the call depends on the context: all arguments in one execution, the
			// default of the second one in another
			fmt.Fprintf(b, "{%% if b1 %%}{{ %s(%s, %s) }}{%% else %%}{{ %s(%s) }}{%% endif %%}", m, p.strE(), p.strE(), m, p.strE())
		default:
			fmt.Fprintf(b, "{{ %s(%s) }}", m, p.strE())
		}
	case "import":
		p.use("import")
		if p.g.Draw(3) == 0 {
			// an imported macro that reads the caller's context without being handed it
			b.WriteString(`{% import "macros.tpl" m_c %}{{ m_c() }}`)
		} else if p.g.Draw(2) == 0 {
			b.WriteString(`{% import "macros.tpl" m_a, m_b as mbx %}`)
			fmt.Fprintf(b, "{{ m_a(%s) }}{{ mbx(%s, %s) }}", p.strE(), p.strE(), p.strE())
		} else {
			b.WriteString(`{% import "macros.tpl" m_b %}`)
			fmt.Fprintf(b, "{{ m_b(%s) }}", p.strE())
		}
	case "include":
		p.use("include")
		f := p.incTarget()
		if f == "" {
			b.WriteString(`{% include "nope.tpl" if_exists %}`)
			return
		}
		fmt.Fprintf(b, `{%% include "%s"`, f)
		p.includeTail(b)
	case "lazyinclude":
		p.use("include")
		f := p.incTarget()
		switch {
		case f == "":
			if p.g.Draw(3) == 0 {
				// a name computed at run time that no loader has, and nobody said if_exists: the
				// execution fails here, however deep in includes this is
				b.WriteString(`<x{{ y() }}-{% include lzmissing %}>`)
				return
			}
			b.WriteString(`{% include lzmissing if_exists %}`)
			return
		case p.g.Draw(3) == 0:
			fmt.Fprintf(b, `{%% include lz%s|lower`, f[3:4])
		default:
			fmt.Fprintf(b, `{%% include lz%s`, f[3:4])
		}
		p.includeTail(b)
	case "cycle":
		p.use("cycle")
		switch p.g.Draw(4) {
		case 0:
			cn := p.id("cy")
			fmt.Fprintf(b, `{%% cycle "c1" "c2" s1 as %s %%}`, cn)
			p.cycles = append(p.cycles, cn)
		case 1:
			cn := p.id("cy")
			fmt.Fprintf(b, `{%% cycle "q1" "q2" as %s silent %%}{{ %s }}`, cn, cn)
			p.cycles = append(p.cycles, cn)
		case 2:
			if len(p.cycles) > 0 {
				fmt.Fprintf(b, `{%% cycle %s %%}`, p.pick(p.cycles))
				break
			}
			fallthrough
		default:
			b.WriteString(`{% cycle "a" "b" n1 %}`)
		}
	case "ifchanged":
		p.use("ifchanged")
		if p.g.Draw(4) == 0 && !p.inMacro {
			// the usual place of ifchanged: inside a loop over values that repeat, here wrapped in
			// a tag that captures its body (spaceless / filter) before handing it on
			p.use("for")
			q := p.id("it")
			open, shut := "{% spaceless %}", "{% endspaceless %}"
			if p.g.Draw(2) == 0 {
				p.use("filter")
				open, shut = "{% filter upper %}", "{% endfilter %}"
			} else {
				p.use("spaceless")
			}
			fmt.Fprintf(b, "{%% for %s in st.Tags %%}%s{%% ifchanged %%}<i> {{ %s }} </i>{%% endifchanged %%}%s,{%% endfor %%}", q, open, q, shut)
			return
		}
		if p.g.Draw(2) == 0 {
			b.WriteString("{% ifchanged %}")
			p.body(b, depth+1)
			b.WriteString("{% endifchanged %}")
		} else {
			fmt.Fprintf(b, "{%% ifchanged %s %%}", p.anyE2())
			p.body(b, depth+1)
			if p.g.Draw(2) == 0 {
				b.WriteString("{% else %}")
				p.body(b, depth+1)
			}
			b.WriteString("{% endifchanged %}")
		}
	case "filtertag":
		p.use("filter")
		f := filterVocab[p.g.Draw(len(filterVocab))]
		fmt.Fprintf(b, "{%% filter %s%s %%}", f, p.pick(filterForms[f]))
		p.body(b, depth+1)
		b.WriteString("{% endfilter %}")
	case "spaceless":
		p.use("spaceless")
		b.WriteString("{% spaceless %}<p> ")
		p.body(b, depth+1)
		b.WriteString(" </p> <b> x </b>{% endspaceless %}")
	case "autoescape":
		p.use("autoescape")
		if p.g.Draw(4) == 0 && !p.inMacro && depth == 0 {
			// one macro, called where escaping is off - in a branch that depends on the context -
			// and where it is on: which call comes first differs from execution to execution
			p.use("macro")
			p.use("if")
			m := p.id("em")
			fmt.Fprintf(b, "{%% macro %s(v) %%}<{{ v }}|{{ s1 }}>{%% endmacro %%}{%% if b1 %%}{%% autoescape off %%}{{ %s(s1) }}{%% endautoescape %%}{%% endif %%}{{ %s(s2) }}{%% autoescape off %%}{{ %s(strg) }}{%% endautoescape %%}", m, m, m, m)
			return
		}
		fmt.Fprintf(b, "{%% autoescape %s %%}", p.pick([]string{"on", "off"}))
		p.body(b, depth+1)
		b.WriteString("{% endautoescape %}")
	case "firstof":
		p.use("firstof")
		fmt.Fprintf(b, "{%% firstof nl %s %s %%}", p.anyE2(), p.strE())
	case "widthratio":
		p.use("widthratio")
		if p.g.Draw(2) == 0 {
			fmt.Fprintf(b, "{%% widthratio n1 %s 100 %%}", p.pick([]string{"n2", "7", "10"}))
		} else {
			v := p.id("wr")
			fmt.Fprintf(b, "{%% widthratio n2 10 50 as %s %%}{{ %s }}", v, v)
		}
	case "wsctl":
		// literal text between a block tag and a whitespace-control marker: what the marker trims
		// and what TrimBlocks/LStripBlocks remove meet in one piece of text
		t := p.pick(textPool) + p.pick([]string{"", "w", " ", "\t "})
		switch p.g.Draw(4) {
		case 0:
			p.use("if")
			fmt.Fprintf(b, "{%% if n1 -%%}%s{%% endif %%}", t)
		case 1:
			p.use("if")
			fmt.Fprintf(b, "{%% if n1 %%}%s{{- s1 }}{%% endif %%}", t)
		case 2:
			p.use("with")
			fmt.Fprintf(b, "{%% with q=1 %%}%s{%%- endwith %%}", t)
		default:
			p.use("if")
			fmt.Fprintf(b, "{{ n1 -}}%s{%% if b1 %%}%s{%% endif -%%}%s", t, p.pick(textPool), p.pick(textPool))
		}
	case "templatetag":
		p.use("templatetag")
		fmt.Fprintf(b, "{%% templatetag %s %%}", p.pick([]string{"openblock", "closeblock", "openvariable", "closevariable", "openbrace", "closebrace", "opencomment", "closecomment"}))
	case "lorem":
		p.use("lorem")
		fmt.Fprintf(b, "{%% lorem %d %s %%}", 1+p.g.Draw(3), p.pick([]string{"w", "p", "b"}))
	case "now":
		p.use("now")
		b.WriteString(`{% now "2006-01-02 15:04" fake %}`)
	case "comment":
		p.use("comment")
		if p.g.Draw(2) == 0 {
			b.WriteString("{% comment %} hidden {{ y() }} {% endcomment %}")
		} else {
			b.WriteString("{# note {{ y() }} #}")
		}
	case "verbatim":
		b.WriteString("{% verbatim %}{{ raw }} {% y %}{% endverbatim %}.")
	case "ssi":
		p.use("ssi")
		f := p.incTarget()
		if f == "" {
			b.WriteString("S")
			return
		}
		fmt.Fprintf(b, `{%% ssi "%s" parsed %%}`, f)
	case "ssiplain":
		p.use("ssi")
		b.WriteString(`{% ssi "raw.txt" %}`)
	}
}

// simple operand for tags that take several space separated expressions
func (p *progGen) anyE2() string {
	opts := []string{"s1", "s2", "n1", "n2", `"abc"`, "3", "b1", "st.Name", "nl", "f1"}
	opts = append(opts, p.locals...)
	opts = append(opts, p.loopVars...)
	return p.pick(opts)
}

func (p *progGen) includeTail(b *strings.Builder) {
	if p.g.Draw(3) == 0 {
		b.WriteString(" if_exists")
	}
	switch p.g.Draw(4) {
	case 0:
		fmt.Fprintf(b, " with iv=%s", p.strE())
	case 1:
		fmt.Fprintf(b, " with iv=%s only", p.strE())
	}
	b.WriteString(" %}")
}

// incTarget returns an include file with a higher index than the current one (acyclic).
func (p *progGen) incTarget() string {
	lo := p.fileIdx + 1
	if lo > 1 {
		return ""
	}
	k := lo + p.g.Draw(2-lo)
	return fmt.Sprintf("inc%d.tpl", k)
}

// GenProgram draws a whole program (several files) from the gen tape.
func GenProgram(g *Tape, size int) *ProgSpec { return GenProgramOpt(g, size, false) }

// GenProgramOpt: allowMut admits the construct in which a context function edits the
// caller's Context map in place (only for checks whose context maps belong to one task).
func GenProgramOpt(g *Tape, size int, allowMut bool) *ProgSpec {
	initVocab()
	sp := &ProgSpec{Files: map[string]string{}, Main: "main.tpl"}
	p := &progGen{g: g, sp: sp, off: map[string]bool{}, tags: map[string]bool{}, fileIdx: -1}
	defer func() {
		sp.TwoLoaders = g.Draw(4) == 0
		if !allowMut {
			return
		}
		sp.NoGlobals = g.Draw(4) == 0
		sp.DebugSet = g.Draw(4) == 0
		sp.BadGlobal = g.Draw(14) == 0
	}()
	// swarm: switch a random third of the constructs off
	for _, c := range allConstructs {
		if c != "text" && c != "y" && g.Draw(3) == 0 {
			p.off[c] = true
			sp.Off = append(sp.Off, c)
		}
	}
	if !allowMut {
		p.off["ctxmut"] = true
	}
	p.heavyOK = allowMut
	if g.Draw(10) == 9 {
		// a "plain" program: nothing but text and bare variable lookups
		for _, c := range allConstructs {
			if c != "text" && c != "lookup" {
				p.off[c] = true
			}
		}
		p.off["lookup"] = false
		sp.Off = []string{"everything but text and bare lookups"}
	}
	sp.TrimBlocks = g.Draw(3) == 1
	sp.LStripBlocks = g.Draw(4) == 1
	sp.OptsOnTemplate = (sp.TrimBlocks || sp.LStripBlocks) && g.Draw(3) == 0
	sp.Files["raw.txt"] = "RAW {{ not parsed }}\n"
	sp.Files["macros.tpl"] = `{% macro m_a(x) export %}[{{ x }}]{% endmacro %}` +
		`{% macro m_b(x, y="d") export %}({{ x }}{{ y() }}{{ y }}{% if x %}{{ x|upper }}{% endif %}){% endmacro %}` +
		`{% macro m_c() export %}<ctx:{{ s1 }}|{{ n1 }}|{{ glob }}>{% endmacro %}`
	// include files, innermost first so that budgets are independent
	for k := 1; k >= 0; k-- {
		var b strings.Builder
		p.fileIdx = k
		p.budget = 2 + g.Draw(size/3+1)
		p.locals, p.loopVars, p.macros, p.cycles = []string{"iv"}, nil, nil, nil
		fmt.Fprintf(&b, "(i%d:", k)
		p.body(&b, 1)
		b.WriteString(")")
		sp.Files[fmt.Sprintf("inc%d.tpl", k)] = b.String()
	}
	p.fileIdx = -1
	p.locals, p.loopVars, p.macros, p.cycles = nil, nil, nil, nil
	var mb strings.Builder
	if g.Draw(3) == 0 {
		// inheritance: main extends base
		p.use("extends")
		p.use("block")
		var bb strings.Builder
		bb.WriteString("BASE[")
		p.budget = 2 + g.Draw(size/3+1)
		if g.Draw(4) == 0 {
			// a layout that consists of literal text only: whatever is dynamic comes from the children
			bb.WriteString("lit <p>{% block b1 %}base-b1:lit{% endblock %}|{% block b2 %}base-b2 lit{% endblock %}]\n")
		} else {
			p.body(&bb, 1)
			bb.WriteString("{% block b1 %}base-b1:")
			p.body(&bb, 1)
			bb.WriteString("{% endblock %}|{% block b2 %}base-b2{{ y() }}{% endblock %}]\n")
		}
		sp.Files["base.tpl"] = bb.String()
		sp.Blocks = []string{"b1", "b2"}
		withComp := g.Draw(3) == 0
		if withComp {
			// a component that is included by the page and built on the same base (nothing
			// the base itself can reach includes it: no cycle)
			sp.Files["comp.tpl"] = `{% extends "base.tpl" %}{% block b2 %}(comp-b2:{{ iv }}{{ y() }}){% endblock %}`
		}
		p.budget = size
		parent := "base.tpl"
		threeLevel := g.Draw(2) == 1
		if threeLevel {
			// main -> mid -> base; mid overrides b1 (with block.Super), main only inherits it
			var md strings.Builder
			md.WriteString(`{% extends "base.tpl" %}{% block b1 %}[mid {{ block.Super }}`)
			p.budget += 3
			p.body(&md, 1)
			md.WriteString("]{% endblock %}")
			sp.Files["mid.tpl"] = md.String()
			parent = "mid.tpl"
		}
		fmt.Fprintf(&mb, `{%% extends "%s" %%}`, parent)
		if !threeLevel || g.Draw(3) == 0 || withComp {
			mb.WriteString("{% block b1 %}")
			if withComp {
				// the component runs while the page is half rendered; the page's own b2 follows
				mb.WriteString(`{% include "comp.tpl" with iv=s1 %}`)
			}
			if g.Draw(2) == 0 {
				mb.WriteString("{{ block.Super }}")
			}
			p.body(&mb, 1)
			mb.WriteString("{% endblock %}")
		}
		if withComp || g.Draw(2) == 0 {
			mb.WriteString("{% block b2 %}child-b2:")
			p.body(&mb, 1)
			mb.WriteString("{{ block.Super|upper }}{% endblock b2 %}")
		}
	} else {
		if g.Draw(4) == 0 {
			// an exported macro of the executing template: a context that carries a key of the
			// same name is rejected before anything is rendered
			p.use("macro")
			mb.WriteString("{% macro xm(a) export %}<xm:{{ a }}>{% endmacro %}{{ xm(n1) }}")
			sp.ExportsXM = true
		}
		p.budget = size
		for p.budget > 0 {
			p.body(&mb, 0)
			if g.Draw(3) == 0 {
				break
			}
		}
		if g.Draw(4) == 0 {
			p.use("block")
			mb.WriteString("{% block b1 %}blk:")
			p.budget += 3
			p.body(&mb, 1)
			mb.WriteString("{% endblock %}")
			sp.Blocks = []string{"b1"}
		}
	}
	if g.Draw(10) == 0 {
		// an optional partial (named at run time, if_exists) that is there - but one of its own
		// dependencies is not: the execution fails, if_exists forgives a missing partial only
		sp.Files["inc1.tpl"] += `<dep{{ y() }}:{% include lzmissing %}>`
		mb.WriteString(`[opt:{% include lz1 if_exists %}]`)
	}
	sp.Files["main.tpl"] = mb.String()
	if g.Draw(8) == 0 {
		// a template file of more than 40 KiB whose bulk is a comment (sizes of sources, not of
		// outputs, cross the thresholds an engine may have)
		sp.Files["inc0.tpl"] += "{# " + strings.Repeat("padding of a large template source. ", 1200) + "#}"
	}
	for t := range p.tags {
		sp.Tags = append(sp.Tags, t)
	}
	sort.Strings(sp.Tags)
	return sp
}

// ---------------------------------------------------------------------------------
// Context universe. A context is described by data (variant + flags) so that both
// sides of a differential oracle can rebuild it.

type CtxDesc struct {
	Variant   int  `json:"variant"`
	MaybeFail bool `json:"maybe_fail,omitempty"`       // fn_maybe() returns an error
	BadKey    bool `json:"bad_key,omitempty"`          // contains a key that is not an identifier
	Clash     bool `json:"clash,omitempty"`            // contains the key "xm": rejected by templates that export a macro of that name
	MacroKeys bool `json:"macro_named_keys,omitempty"` // carries plain values under names that programs give to imported macros
}

type simUser struct {
	Name string
	Age  int
	Tags []string
	Next *simUser
	w    *World
}

func (u *simUser) Greet(s string) string { return "hi " + s + " from " + u.Name }
func (u *simUser) Cb() (string, error) {
	if u.w == nil {
		return "", nil
	}
	return "", u.w.Callback(3)
}

// the same template path (poly.Name, poly.Title, ...) goes through a method, a map key
// or a struct field depending on the context variant
type polyMethods struct{ n string }

func (p *polyMethods) Name() string  { return "method:" + p.n }
func (p *polyMethods) Title() string { return "Title of " + p.n }

// three more receiver types that all have the methods Name and Title, at different
// positions of their method sets (reflect numbers methods in name order)
type polyMethodsB struct{ n string }

func (p *polyMethodsB) Alpha() string { return "alpha-of-" + p.n }
func (p *polyMethodsB) Name() string  { return "B-method:" + p.n }
func (p *polyMethodsB) Title() string { return "B-title of " + p.n }

type polyMethodsC struct{ n string }

func (p polyMethodsC) Aaa() string   { return "aaa" }
func (p polyMethodsC) Abc() string   { return "abc" }
func (p polyMethodsC) Name() string  { return "C-method:" + p.n }
func (p polyMethodsC) Title() string { return "C-title of " + p.n }
func (p polyMethodsC) Zeta() string  { return "zeta" }

func localRecA() any {
	type rec struct{ Name, City string }
	return rec{"la-N", "la-C<"}
}

func localRecB() any {
	type rec struct {
		City string
		Name string
	}
	return &rec{"lb-C", "lb-N"}
}

type polyFields struct {
	Name string
	Nick string
	Kids []int
}

// large outputs cross internal size thresholds (buffer growth, chunked writes)
var bigStrings = func() [3]string {
	mk := func(n int) string {
		var b []byte
		for i := 0; len(b) < n; i++ {
			b = append(b, []byte(fmt.Sprintf("%06d<&>\n", i))...)
		}
		return string(b[:n])
	}
	return [3]string{mk(3 << 10), mk(40 << 10), mk(70 << 10)}
}()

// longList: 24 strings whose content depends on the context variant (the membership tests the
// generator writes come out differently per variant)
func longList(v int) []string {
	l := make([]string, 24)
	for i := range l {
		l[i] = fmt.Sprintf("k%d", i*(v+1))
	}
	return l
}

var hugeString = strings.Repeat("0123456789abcdef<&>\n", (1200<<10)/20)

type simStringer struct{ s string }

func (s simStringer) String() string { return "Stringer(" + s.s + ")" }

func GenCtxDesc(g *Tape) CtxDesc {
	d := CtxDesc{Variant: g.Draw(3)}
	switch g.Draw(10) {
	case 6:
		d.MaybeFail = true
	case 7:
		d.BadKey = true
	case 8:
		d.Clash = true
	case 9:
		d.MacroKeys = true
	}
	return d
}

// BuildCtx builds a fresh context from its description. Nothing is shared between
// two calls.
func (w *World) BuildCtx(d CtxDesc) pongo2.Context {
	v := d.Variant % 3
	next := &simUser{Name: []string{"Nx", "Ny<", "Nz"}[v], Age: 1, w: w}
	st := &simUser{Name: []string{"Ann", "B&b", "Çé"}[v], Age: []int{30, 0, 7}[v], Tags: [][]string{{"t1", "t2", "t2"}, {}, {"z", "a"}}[v], Next: next, w: w}
	ctx := pongo2.Context{
		"s1":    []string{"hello <b>&", "wörld", ""}[v],
		"s2":    []string{"abc", "x\xffy z\xc3", "<i>"}[v], // variant 1 is not valid UTF-8
		"n1":    []int{3, 0, 7}[v],
		"n2":    []any{5, 2, -1.5}[v],
		"z":     0,
		"f1":    []float64{1.5, 2.0, 0.25}[v],
		"b1":    []bool{true, false, true}[v],
		"nl":    nil,
		"lst":   []any{[]int{3, 1, 2}, []int{}, []string{"5x", "5"}}[v], // (not in sorted order: an engine that sorts in place shows)
		"strs":  [][]string{{"b", "c", "a"}, {"x"}, {"q", "a"}}[v],
		"mp":    []any{map[string]any{"k1": "v1", "k2": 2}, map[string]string{"k1": "<v>"}, map[string]any{"k1": "", "k3": 3.5, "k0": "z"}}[v],
		"st":    st,
		"strg":  simStringer{[]string{"x", "<y>", ""}[v]},
		"poly2": []any{&polyMethods{"P2"}, &polyMethodsB{"PB<"}, polyMethodsC{"PC"}}[v],
		"poly":  []any{&polyMethods{"PM"}, map[string]any{"Name": "mapname<", "Title": "maptitle", "Kids": []string{"k1"}}, polyFields{Name: "fieldname", Nick: "nick&", Kids: []int{7, 8}}}[v],
		// struct types without a name, and equally named types declared in different functions:
		// same field names, different layouts
		"anon": []any{struct{ Name, City string }{"an-N<", "an-C"}, struct{ City, Name string }{"bn-C", "bn-N&"}, struct {
			Zip        int
			Name, City string
		}{7, "cn-N", "cn-C"}}[v],
		"loc":       []any{localRecA(), localRecB(), localRecA()}[v],
		"lzv":       []string{"inc0.tpl", "inc1.tpl", "inc0.tpl"}[v],
		"bigs":      bigStrings[v],
		"huge":      hugeString,
		"longs":     longList(v),
		"capl":      append(make([]string, 0, 8), "c1", "c2", "c3"), // a list with spare capacity behind its length
		"rdepth":    []int{3, 300, 600}[v],
		"lz0":       "inc0.tpl",
		"lz1":       "inc1.tpl",
		"lzmissing": "nope.tpl",
		"fn_add":    func(a, b int) int { return a + b },
		"fnc0":      func(ec *pongo2.ExecutionContext) string { return fmt.Sprintf("c0[%v]", ec != nil) },
		"fnc1":      func(ec *pongo2.ExecutionContext, a *pongo2.Value) string { return "c1[" + a.String() + "]" },
		"fnc3": func(ec *pongo2.ExecutionContext, a, b, c *pongo2.Value) string {
			return "c3[" + a.String() + "," + b.String() + "," + c.String() + "]"
		},
		"fnc5": func(ec *pongo2.ExecutionContext, a, b, c, d, e *pongo2.Value) string {
			return "c5[" + a.String() + b.String() + c.String() + d.String() + e.String() + "]"
		},
		"fnv": func(ec *pongo2.ExecutionContext, args ...*pongo2.Value) string {
			s := "cv["
			for _, a := range args {
				s += a.String() + ";"
			}
			return s + "]"
		},
		"fn_maybe": func() (string, error) {
			if d.MaybeFail {
				return "", fmt.Errorf("fn_maybe failed (context says so)")
			}
			return "ok", nil
		},
		"y":    func() (string, error) { return "", w.Callback(1) },
		"mutk": "M0",
		"yv": func(x *pongo2.Value) (*pongo2.Value, error) {
			if err := w.Callback(2); err != nil {
				return nil, err
			}
			return x, nil
		},
	}
	ctx["mut"] = func() string { ctx["mutk"] = "M1"; return "" }
	if d.BadKey {
		ctx["bad-key"] = "plain string value"
	}
	if d.Clash {
		ctx["xm"] = "clashes with the exported macro xm"
	}
	if d.MacroKeys {
		// plain values under the names that programs give to imported macros: shadowed where an
		// import has run, ordinary variables everywhere else - never a reason to reject the context
		ctx["mbx"], ctx["m_c"], ctx["m_a"] = "ctx-mbx", "ctx-m_c", "ctx-m_a"
	}
	if v == 2 {
		ctx["glob"] = "ctx-overrides-global" // a context key shadows the set's global of the same name
	}
	return ctx
}
