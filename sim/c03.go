package sim

import (
	"fmt"
	"sort"
	"strings"

	pongo2 "github.com/flosch/pongo2/v6"
)

// C03 - sandbox: a banned tag or filter cannot be used by any route; bans freeze after
// the first template. DESIGN.md section 4 (C03). Single task; call histories over
// {BanTag, BanFilter, From*, Render*, Execute} on 1..2 sets, with loader faults so that
// template creation can fail before it succeeds, compared op by op with a
// ban-set/frozen-flag model and with a ban-free twin set.

type c03Use struct {
	IsTag   bool     `json:"is_tag"`
	Target  string   `json:"target"`
	Route   string   `json:"route"`
	Control bool     `json:"control_route,omitempty"` // the target only appears in a comment / verbatim / string literal
	Wraps   []string `json:"nested_in,omitempty"`     // extra block-tag bodies the use is nested in (innermost first)
	Operand string   `json:"operand,omitempty"`       // what the filter is applied to (default: the variable s1)
}

type c03Op struct {
	Kind   string  `json:"kind"` // "bantag", "banfilter", "create", "exec"
	Set    int     `json:"set"`
	Target string  `json:"target,omitempty"`
	Via    string  `json:"via,omitempty"`
	Use    *c03Use `json:"use,omitempty"`
	Fault  bool    `json:"loader_fault,omitempty"`
	Conc   int     `json:"concurrent_group,omitempty"` // > 0: issued concurrently with the other ops of this group
	ExecOf int     `json:"exec_of,omitempty"`
	// derived
	Dir       string   `json:"dir,omitempty"`
	Main      string   `json:"main,omitempty"`
	MainName  string   `json:"main_name,omitempty"`
	MainTags  []string `json:"-"`
	MainFilts []string `json:"-"`
	LazyTags  []string `json:"-"`
	LazyFilts []string `json:"-"`
	// Forbidden: composition tag -> files that only this tag's uses refer to; when the
	// tag is banned none of them may be fetched
	Forbidden map[string][]string `json:"-"`
}

type c03Spec struct {
	NSets  int               `json:"sets"`
	Loader string            `json:"loader"`
	Shared bool              `json:"sets_share_one_loader_object"`
	NLoad  int               `json:"loaders_per_set"`
	OnDisk map[string]int    `json:"file_on_disk,omitempty"` // with two loaders: which disk holds each directory's files
	Files  map[string]string `json:"files"`
	Ops    []c03Op           `json:"ops"`
	Pool   []string          `json:"ban_pool"`
}

type c03Checker struct{}

func init() { Register(c03Checker{}) }

func (c03Checker) ID() string { return "C03" }
func (c03Checker) ProbeNames() []string {
	return []string{"ban_accepted", "ban_refused_frozen", "ban_after_failed_creation", "ban_unknown", "ban_duplicate",
		"banned_use_rejected", "banned_lazy_rejected_at_exec", "control_route_ok", "unbanned_use_ok", "route_filter_tag_chain",
		"route_macro_default", "route_file_composition", "route_tag_argument", "creation_failed_by_loader_fault", "two_sets", "exec_of_earlier", "concurrent_first_creations"}
}
func (c03Checker) Meta() CheckerMeta {
	return CheckerMeta{
		Level: "exploration",
		Rule: "each run draws a call history of up to 12 operations over {BanTag, BanFilter (registered / unknown / duplicate targets), FromString, FromBytes, FromFile, FromCache, RenderTemplateString/Bytes/File, Execute of an earlier template} on 1..2 sets; " +
			"every created source uses one target (any registered tag or filter, or a counting probe tag/filter) through one of ~40 routes (top level, bodies of block tags, tag arguments, subscript/call/array, filter-tag chain, macro default, included/extended/imported/ssi/lazily-included files, plus control routes in comments/verbatim/strings); creations can fail by injected loader faults; " +
			"each op is compared with the ban-set/frozen-flag model and with a ban-free twin set; non-trivial = the history contains a ban and a later use of a banned target or a refused ban; distinct = distinct history",
		Real: []string{"pongo2 package (BanTag/BanFilter, all From*/Render* entry points, parser ban checks, every tag parser, include/extends/import/ssi composition)", "pongo2.HttpFilesystemLoader"},
		Stub: []string{"template files (in-memory disk with fault plan)", "virtual TemplateLoader", "probe tags/filters registered by the harness (count parser invocations, executions, calls)"},
		Assumptions: []string{
			"where the statement is silent (ban after only failed creations, duplicate ban, unknown name) either answer is accepted but binding: nil => banned from now on, error => unchanged",
			"Render* are written with Must: a compile error surfaces as panic(*Error), accepted as 'compilation fails'",
		},
		QuickRuns: 20000, QuickRace: 0,
	}
}

// ---- probes ----------------------------------------------------------------------------------

var probeCounts = map[string]int{} // "probe_t0:parse", "probe_t0:exec", "probe_f0:call"

type probeTagNode struct {
	name string
	gen  int
}

func (n probeTagNode) Execute(ctx *pongo2.ExecutionContext, w pongo2.TemplateWriter) *pongo2.Error {
	probeCounts[n.name+":exec"]++
	if n.gen > 0 {
		w.WriteString(fmt.Sprintf("<%s#%d>", n.name, n.gen))
	} else {
		w.WriteString("<" + n.name + ">")
	}
	return nil
}

func probeTagParser(n string) pongo2.TagParser { return probeTagParserGen(n, 0) }

// probeTagParserGen: generation gen of the tag's implementation (what ReplaceTag installs
// prints its generation, so a set that keeps using the replaced parser shows)
func probeTagParserGen(n string, gen int) pongo2.TagParser {
	return func(doc *pongo2.Parser, start *pongo2.Token, arguments *pongo2.Parser) (pongo2.INodeTag, *pongo2.Error) {
		probeCounts[n+":parse"]++
		return probeTagNode{n, gen}, nil
	}
}

func probeFilterFn(n string) pongo2.FilterFunction {
	return func(in *pongo2.Value, param *pongo2.Value) (*pongo2.Value, *pongo2.Error) {
		probeCounts[n+":call"]++
		return pongo2.AsValue("<" + n + ":" + in.String() + ">"), nil
	}
}

// extra probes: a registry of well over a hundred tags and filters (an application with
// many custom tags), so that positions in the registry cross whatever size an engine's
// ban bookkeeping may have been built around
var extraProbeTags, extraProbeFilters []string

func init() {
	for _, n := range []string{"probe_t0", "probe_t1"} {
		pongo2.RegisterTag(n, probeTagParser(n))
	}
	for _, n := range []string{"probe_f0", "probe_f1"} {
		pongo2.RegisterFilter(n, probeFilterFn(n))
	}
	for i := 2; i < 100; i++ {
		t, f := fmt.Sprintf("probe_t%d", i), fmt.Sprintf("probe_f%d", i)
		pongo2.RegisterTag(t, probeTagParser(t))
		pongo2.RegisterFilter(f, probeFilterFn(f))
		extraProbeTags = append(extraProbeTags, t)
		extraProbeFilters = append(extraProbeFilters, f)
		c03TagSnippets[t] = "{% " + t + " %}"
	}
}

func probeSnapshot(target string) int {
	return probeCounts[target+":parse"] + probeCounts[target+":exec"] + probeCounts[target+":call"]
}

// ---- vocabulary ----------------------------------------------------------------------------

// how to write a use of each tag (file names are filled in per op)
var c03TagSnippets = map[string]string{
	"autoescape":  "{% autoescape off %}{{ s1 }}{% endautoescape %}",
	"block":       "{% block zz9 %}x{% endblock %}",
	"comment":     "{% comment %}x{% endcomment %}",
	"cycle":       `{% cycle "a" "b" %}`,
	"extends":     `{% extends "$D/base2.tpl" %}`,
	"filter":      "{% filter upper %}x{% endfilter %}",
	"firstof":     "{% firstof nl s1 %}",
	"for":         "{% for q in lst %}{{ q }}{% endfor %}",
	"if":          "{% if b1 %}y{% else %}n{% endif %}",
	"ifchanged":   "{% ifchanged s1 %}c{% endifchanged %}",
	"ifequal":     "{% ifequal n1 n1 %}e{% endifequal %}",
	"ifnotequal":  "{% ifnotequal n1 n2 %}ne{% endifnotequal %}",
	"import":      `{% import "$D/mac.tpl" mm %}{{ mm() }}`,
	"include":     `{% include "$D/inc2.tpl" %}`,
	"lorem":       "{% lorem 2 w %}",
	"macro":       "{% macro zm(a) %}[{{ a }}]{% endmacro %}{{ zm(1) }}",
	"now":         `{% now "2006" fake %}`,
	"set":         "{% set zs = 1 %}{{ zs }}",
	"spaceless":   "{% spaceless %}<a> </a>{% endspaceless %}",
	"ssi":         `{% ssi "$D/inc2.tpl" parsed %}`,
	"templatetag": "{% templatetag openblock %}",
	"widthratio":  "{% widthratio n1 10 100 %}",
	"with":        "{% with zw=1 %}{{ zw }}{% endwith %}",
	"vsim":        "{% vsim %}",
	"probe_t0":    "{% probe_t0 %}",
	"probe_t1":    "{% probe_t1 %}",
}

var c03BodyRoutes = []string{"top", "if-body", "else-body", "for-body", "with-body", "macro-body", "block-body", "spaceless-body", "autoescape-body", "filtertag-body", "ifchanged-body", "ifequal-body", "for-empty-body"}

// operands a filter use may be applied to; the last ones are not valid pongo2 syntax on
// the pinned tree (both the set and its ban-free twin then fail alike) - they exist so
// that a grammar extension which forgets the ban check is still exercised
var c03Operands = []string{"s1", "s1", `"lit"`, "42", "st.Name", "true", "(s1)", `("a" + s1)`, "-n1", "s1 ", "[s1, s2]", "yv(s1)", "mp.k1", "lst.0"}

var c03ArgRoutes = []string{"arg-if", "arg-elif", "arg-for", "arg-with", "arg-with-old", "arg-set", "arg-firstof", "arg-widthratio", "arg-cycle", "arg-ifchanged", "arg-ifequal",
	"arg-include-with", "arg-lazy-name", "subscript", "call-arg", "array", "after-param", "filtertag-chain", "filtertag-chain2", "macro-default", "binary-operand", "negation"}
var c03FileRoutes = []string{"included", "included-if-exists", "extended-base", "extended-child-block", "imported-macro", "ssi-parsed", "lazy", "lazy-nested", "included-nested",
	"extended-child-toplevel", "extended-child-after-block"}
var c03ControlRoutes = []string{"in-comment", "in-hash-comment", "in-verbatim", "in-string"}

// carrier tags a route itself needs
var c03RouteTags = map[string][]string{
	"if-body": {"if"}, "else-body": {"if"}, "for-body": {"for"}, "with-body": {"with"}, "macro-body": {"macro"}, "block-body": {"block"},
	"spaceless-body": {"spaceless"}, "autoescape-body": {"autoescape"}, "filtertag-body": {"filter"}, "ifchanged-body": {"ifchanged"},
	"ifequal-body": {"ifequal"}, "for-empty-body": {"for"},
	"arg-if": {"if"}, "arg-elif": {"if"}, "arg-for": {"for"}, "arg-with": {"with"}, "arg-with-old": {"with"}, "arg-set": {"set"}, "arg-firstof": {"firstof"},
	"arg-widthratio": {"widthratio"}, "arg-cycle": {"cycle"}, "arg-ifchanged": {"ifchanged"}, "arg-ifequal": {"ifequal"},
	"arg-include-with": {"include"}, "arg-lazy-name": {"include"}, "filtertag-chain": {"filter"}, "filtertag-chain2": {"filter"}, "macro-default": {"macro"},
	"included": {"include"}, "included-if-exists": {"include"}, "extended-base": {"extends", "block"}, "extended-child-block": {"extends", "block"},
	"extended-child-toplevel": {"extends", "block"}, "extended-child-after-block": {"extends", "block"},
	"imported-macro": {"import", "macro"}, "ssi-parsed": {"ssi"}, "lazy": {"include"}, "lazy-nested": {"include"}, "included-nested": {"include"},
	"in-comment": {"comment"},
}
var c03RouteFilters = map[string][]string{"filtertag-chain2": {"upper"}, "after-param": {"default"}, "filtertag-body": {"lower"}}

func c03Wrap(route, inner string) string {
	switch route {
	case "top":
		return "T:" + inner
	case "if-body":
		return "{% if true %}" + inner + "{% endif %}"
	case "else-body":
		return "{% if false %}n{% else %}" + inner + "{% endif %}"
	case "for-body":
		return "{% for q9 in strs %}" + inner + "{% endfor %}"
	case "for-empty-body":
		return "{% for q9 in nl %}n{% empty %}" + inner + "{% endfor %}"
	case "with-body":
		return "{% with q8=1 %}" + inner + "{% endwith %}"
	case "macro-body":
		return "{% macro qm() %}" + inner + "{% endmacro %}{{ qm() }}"
	case "block-body":
		return "{% block qb %}" + inner + "{% endblock %}"
	case "spaceless-body":
		return "{% spaceless %}" + inner + "{% endspaceless %}"
	case "autoescape-body":
		return "{% autoescape off %}" + inner + "{% endautoescape %}"
	case "filtertag-body":
		return "{% filter lower %}" + inner + "{% endfilter %}"
	case "ifchanged-body":
		return "{% ifchanged %}" + inner + "{% endifchanged %}"
	case "ifequal-body":
		return "{% ifequal 1 1 %}" + inner + "{% endifequal %}"
	}
	return inner
}

// c03Build writes the sources of one creation op. dir is the op's private directory.
func c03Build(op *c03Op, dir string, files map[string]string) {
	u := op.Use
	mainTags, mainFilts := map[string]bool{}, map[string]bool{}
	lazyTags, lazyFilts := map[string]bool{}, map[string]bool{}
	addUse := func(tags, filts map[string]bool) {
		if u.Control {
			return
		}
		if u.IsTag {
			tags[u.Target] = true
			switch u.Target {
			case "filter":
				filts["upper"] = true
			case "import":
				tags["macro"] = true // the imported file defines the macro
			}
		} else {
			filts[u.Target] = true
		}
	}
	expr := "s1"
	snippet := ""
	if u.IsTag {
		snippet = strings.ReplaceAll(c03TagSnippets[u.Target], "$D", dir)
	} else {
		forms := filterForms[u.Target]
		form := ""
		if len(forms) > 0 {
			form = forms[0]
		}
		operand := u.Operand
		if operand == "" {
			operand = "s1"
		}
		expr = operand + "|" + u.Target + form
		snippet = "{{ " + expr + " }}"
	}
	argRoute := false
	for _, ar := range c03ArgRoutes {
		if ar == u.Route {
			argRoute = true
		}
	}
	if !u.Control {
		for _, wr := range u.Wraps {
			for _, t := range c03RouteTags[wr] {
				if u.Route == "lazy" || u.Route == "lazy-nested" {
					lazyTags[t] = true
				} else {
					mainTags[t] = true
				}
			}
			for _, f := range c03RouteFilters[wr] {
				if u.Route == "lazy" || u.Route == "lazy-nested" {
					lazyFilts[f] = true
				} else {
					mainFilts[f] = true
				}
			}
			if !argRoute {
				snippet = c03Wrap(wr, snippet)
			}
		}
	}
	files[dir+"/inc2.tpl"] = "(inc2)"
	if len(dir) > 0 && dir[len(dir)-1]%4 == 0 {
		files[dir+"/inc2.tpl"] = "" // an included file may well be empty
	}
	files[dir+"/base2.tpl"] = "(base2)"
	files[dir+"/mac.tpl"] = "{% macro mm() export %}(mm){% endmacro %}"
	for _, t := range c03RouteTags[u.Route] {
		mainTags[t] = true
	}
	for _, f := range c03RouteFilters[u.Route] {
		mainFilts[f] = true
	}
	main := ""
	if strings.HasPrefix(expr, "s1|") == false {
		// routes that rewrite the operand only know the default one
		switch u.Route {
		case "arg-widthratio", "arg-lazy-name", "subscript", "after-param", "binary-operand", "filtertag-chain", "filtertag-chain2":
			expr = "s1" + expr[strings.Index(expr, "|"+u.Target):]
			snippet = "{{ " + expr + " }}"
		}
	}
	switch u.Route {
	case "arg-if":
		main = "{% if " + expr + " %}y{% endif %}"
		addUse(mainTags, mainFilts)
	case "arg-elif":
		main = "{% if false %}n{% elif " + expr + " %}y{% endif %}"
		addUse(mainTags, mainFilts)
	case "arg-for":
		main = "{% for q in " + expr + " %}{{ q }}{% endfor %}"
		addUse(mainTags, mainFilts)
	case "arg-with":
		main = "{% with q=" + expr + " %}{{ q }}{% endwith %}"
		addUse(mainTags, mainFilts)
	case "arg-with-old":
		main = "{% with " + expr + " as q %}{{ q }}{% endwith %}"
		addUse(mainTags, mainFilts)
	case "arg-set":
		main = "{% set q = " + expr + " %}{{ q }}"
		addUse(mainTags, mainFilts)
	case "arg-firstof":
		main = "{% firstof nl " + expr + " %}"
		addUse(mainTags, mainFilts)
	case "arg-widthratio":
		main = "{% widthratio " + strings.Replace(expr, "s1", "n1", 1) + " 10 100 %}"
		addUse(mainTags, mainFilts)
	case "arg-cycle":
		main = "{% cycle " + expr + ` "b" %}`
		addUse(mainTags, mainFilts)
	case "arg-ifchanged":
		main = "{% ifchanged " + expr + " %}c{% endifchanged %}"
		addUse(mainTags, mainFilts)
	case "arg-ifequal":
		main = "{% ifequal " + expr + " s2 %}e{% else %}n{% endifequal %}"
		addUse(mainTags, mainFilts)
	case "arg-include-with":
		main = `{% include "` + dir + `/inc2.tpl" with q=` + expr + " %}"
		addUse(mainTags, mainFilts)
	case "arg-lazy-name":
		main = "{% include " + strings.Replace(expr, "s1", "lzname", 1) + " if_exists %}"
		addUse(mainTags, mainFilts)
	case "subscript":
		main = "{{ lst[" + strings.Replace(expr, "s1", "n2", 1) + "] }}"
		addUse(mainTags, mainFilts)
	case "call-arg":
		main = "{{ idf(" + expr + ") }}"
		addUse(mainTags, mainFilts)
	case "array":
		main = "{{ [" + expr + ", 2]|length }}"
		mainFilts["length"] = true
		addUse(mainTags, mainFilts)
	case "after-param":
		main = "{{ nl|default:s2|" + strings.TrimPrefix(expr, "s1|") + " }}"
		addUse(mainTags, mainFilts)
	case "binary-operand":
		main = "{{ 1 + " + strings.Replace(expr, "s1", "n1", 1) + " }}"
		addUse(mainTags, mainFilts)
	case "negation":
		main = "{{ not " + expr + " }}"
		addUse(mainTags, mainFilts)
	case "filtertag-chain":
		main = "{% filter " + strings.TrimPrefix(expr, "s1|") + " %}body{% endfilter %}"
		addUse(mainTags, mainFilts)
	case "filtertag-chain2":
		main = "{% filter upper|" + strings.TrimPrefix(expr, "s1|") + " %}body{% endfilter %}"
		addUse(mainTags, mainFilts)
	case "macro-default":
		main = "{% macro qd(a=" + expr + ") %}[{{ a }}]{% endmacro %}{{ qd() }}"
		addUse(mainTags, mainFilts)
	case "included":
		main = `I:{% include "` + dir + `/inc.tpl" %}`
		files[dir+"/inc.tpl"] = "(inc:" + snippet + ")"
		addUse(mainTags, mainFilts)
	case "included-if-exists":
		main = `I:{% include "` + dir + `/inc.tpl" if_exists %}`
		files[dir+"/inc.tpl"] = "(inc:" + snippet + ")"
		addUse(mainTags, mainFilts)
	case "included-nested":
		main = `I:{% include "` + dir + `/mid.tpl" %}`
		files[dir+"/mid.tpl"] = `(mid:{% include "` + dir + `/inc.tpl" %})`
		files[dir+"/inc.tpl"] = "(inc:" + snippet + ")"
		addUse(mainTags, mainFilts)
	case "extended-base":
		main = `{% extends "` + dir + `/base.tpl" %}{% block qb %}child{% endblock %}`
		files[dir+"/base.tpl"] = "(base:" + snippet + "{% block qb %}d{% endblock %})"
		addUse(mainTags, mainFilts)
	case "extended-child-block":
		main = `{% extends "` + dir + `/base.tpl" %}{% block qb %}child:` + snippet + `{% endblock %}`
		files[dir+"/base.tpl"] = "(base:{% block qb %}d{% endblock %})"
		addUse(mainTags, mainFilts)
	case "extended-child-toplevel":
		// outside any block of a child template: parsed, never rendered
		main = `{% extends "` + dir + `/base.tpl" %}` + snippet + `{% block qb %}child{% endblock %}`
		files[dir+"/base.tpl"] = "(base:{% block qb %}d{% endblock %})"
		addUse(mainTags, mainFilts)
	case "extended-child-after-block":
		main = `{% extends "` + dir + `/base.tpl" %}{% block qb %}child{% endblock %} tail:` + snippet
		files[dir+"/base.tpl"] = "(base:{% block qb %}d{% endblock %})"
		addUse(mainTags, mainFilts)
	case "imported-macro":
		main = `{% import "` + dir + `/imp.tpl" im %}{{ im() }}`
		files[dir+"/imp.tpl"] = "{% macro im() export %}(im:" + snippet + "){% endmacro %}"
		addUse(mainTags, mainFilts)
	case "ssi-parsed":
		main = `S:{% ssi "` + dir + `/inc.tpl" parsed %}`
		files[dir+"/inc.tpl"] = "(ssi:" + snippet + ")"
		addUse(mainTags, mainFilts)
	case "lazy":
		main = "L:{% include lzname %}"
		files[dir+"/inc.tpl"] = "(lazy:" + snippet + ")"
		addUse(lazyTags, lazyFilts)
	case "lazy-nested":
		main = "L:{% include lzname %}"
		files[dir+"/inc.tpl"] = `(lazy:{% include "` + dir + `/deep.tpl" %})`
		files[dir+"/deep.tpl"] = "(deep:" + snippet + ")"
		lazyTags["include"] = true
		addUse(lazyTags, lazyFilts)
	case "in-comment":
		main = "{% comment %}" + snippet + "{% endcomment %}ok"
	case "in-hash-comment":
		main = "{# " + strings.ReplaceAll(snippet, "\n", " ") + " #}ok"
	case "in-verbatim":
		main = "{% verbatim %}" + snippet + "{% endverbatim %}.ok"
	case "in-string":
		main = `{{ "` + strings.ReplaceAll(strings.ReplaceAll(snippet, `"`, `'`), "\\", "") + `"|safe }}ok`
		mainFilts["safe"] = true
	default:
		main = c03Wrap(u.Route, snippet)
		addUse(mainTags, mainFilts)
	}
	// tags a tag snippet itself carries along
	if u.IsTag && !u.Control {
		into := mainTags
		if u.Route == "lazy" || u.Route == "lazy-nested" {
			into = lazyTags
		}
		_ = into
	}
	if argRoute && !u.Control {
		for _, wr := range u.Wraps {
			main = c03Wrap(wr, main)
		}
	}
	op.Forbidden = map[string][]string{}
	fb := func(tag string, fs ...string) {
		for _, f := range fs {
			op.Forbidden[tag] = append(op.Forbidden[tag], dir+"/"+f)
		}
	}
	switch u.Route {
	case "included", "included-if-exists", "lazy":
		fb("include", "inc.tpl")
	case "included-nested":
		fb("include", "mid.tpl", "inc.tpl")
	case "lazy-nested":
		fb("include", "inc.tpl", "deep.tpl")
	case "extended-base", "extended-child-block", "extended-child-toplevel", "extended-child-after-block":
		fb("extends", "base.tpl")
	case "imported-macro":
		fb("import", "imp.tpl")
	case "ssi-parsed":
		fb("ssi", "inc.tpl")
	case "arg-include-with":
		fb("include", "inc2.tpl")
	}
	if u.IsTag && !u.Control {
		switch u.Target {
		case "include", "ssi":
			fb(u.Target, "inc2.tpl")
		case "import":
			fb("import", "mac.tpl")
		case "extends":
			fb("extends", "base2.tpl")
		}
	}
	op.Main = main
	op.MainName = dir + "/main.tpl"
	files[op.MainName] = main
	op.MainTags, op.MainFilts = sortedBoolKeys(mainTags), sortedBoolKeys(mainFilts)
	op.LazyTags, op.LazyFilts = sortedBoolKeys(lazyTags), sortedBoolKeys(lazyFilts)
}

func c03Gen(tp *Tapes) *c03Spec {
	initVocab()
	g := tp.Gen
	sp := &c03Spec{NSets: 1 + g.Draw(2), Files: map[string]string{}}
	sp.Loader = []string{"virt", "http"}[g.Draw(2)]
	sp.Shared = g.Draw(2) == 1
	sp.NLoad = 1 + g.Draw(2)
	sp.OnDisk = map[string]int{}
	isExtra := func(n string) bool {
		return strings.HasPrefix(n, "probe_") && len(n) > len("probe_t0") || (strings.HasPrefix(n, "probe_") && n[len(n)-1] > '1')
	}
	var allTags []string
	for _, t := range pongo2.VerifRegisteredTags() {
		if _, ok := c03TagSnippets[t]; ok && !isExtra(t) {
			allTags = append(allTags, t)
		}
	}
	var allFilters []string
	for _, f := range pongo2.VerifRegisteredFilters() {
		if !isExtra(f) {
			allFilters = append(allFilters, f)
		}
	}
	pickTarget := func() (bool, string) {
		if g.Draw(2) == 0 {
			if g.Draw(5) == 0 {
				return true, extraProbeTags[g.Draw(len(extraProbeTags))]
			}
			return true, allTags[g.Draw(len(allTags))]
		}
		switch g.Draw(6) {
		case 0, 1:
			return false, []string{"probe_f0", "probe_f1"}[g.Draw(2)]
		case 2:
			return false, extraProbeFilters[g.Draw(len(extraProbeFilters))]
		}
		return false, allFilters[g.Draw(len(allFilters))]
	}
	// a small pool so that uses often hit banned targets
	type tgt struct {
		isTag bool
		name  string
	}
	var pool []tgt
	for i := 0; i < 2+g.Draw(3); i++ {
		it, n := pickTarget()
		pool = append(pool, tgt{it, n})
		sp.Pool = append(sp.Pool, n)
	}
	nops := 3 + g.DrawD(10, 30)
	if g.Draw(8) == 7 {
		nops = 20 + g.Draw(30) // a long history: wear-out effects (leaked counters, filled tables) need many rejected creations
	}
	var creates []int
	f := tp.Fault
	for i := 0; i < nops; i++ {
		op := c03Op{Set: g.Draw(sp.NSets)}
		k := g.Draw(10)
		switch {
		case k < 3 || (i == 0 && k < 6):
			t := pool[g.Draw(len(pool))]
			switch g.Draw(8) {
			case 0:
				t.name = "no_such_thing"
			case 1:
				t.isTag, t.name = pickTarget()
			}
			op.Kind = "banfilter"
			if t.isTag {
				op.Kind = "bantag"
			}
			op.Target = t.name
		case k == 8 && g.Draw(3) == 0:
			// housekeeping calls that must not touch the sandbox: cache cleaning, and
			// re-registering a probe tag/filter with an equivalent implementation
			op.Kind = []string{"cleancache", "cleancache-all", "replace-tag", "replace-filter", "new-options"}[g.Draw(5)]
			op.Target = []string{"probe_t0", "probe_t1"}[g.Draw(2)]
			if op.Kind == "replace-filter" {
				op.Target = []string{"probe_f0", "probe_f1"}[g.Draw(2)]
			}
		case k == 9 && len(creates) > 0:
			op.Kind = "exec"
			op.ExecOf = creates[g.Draw(len(creates))]
			op.Set = sp.Ops[op.ExecOf].Set
			op.Dir = sp.Ops[op.ExecOf].Dir
		default:
			op.Kind = "create"
			op.Via = []string{"FromString", "FromBytes", "FromFile", "FromCache", "RenderTemplateString", "RenderTemplateBytes", "RenderTemplateFile"}[g.Draw(7)]
			u := &c03Use{}
			if len(creates) > 0 && g.Draw(4) == 0 {
				// repeat an earlier use verbatim (same files), typically on another set: state
				// that one set leaves behind must not let another set's banned code through
				prev := sp.Ops[creates[g.Draw(len(creates))]]
				cp := *prev.Use
				op.Use = &cp
				op.Dir = prev.Dir
				c03Build(&op, op.Dir, sp.Files)
				if (op.Via == "FromFile" || op.Via == "FromCache" || op.Via == "RenderTemplateFile") && f.Draw(5) == 4 {
					op.Fault = true
				}
				creates = append(creates, i)
				sp.Ops = append(sp.Ops, op)
				continue
			}
			if g.Draw(3) != 0 {
				t := pool[g.Draw(len(pool))]
				u.IsTag, u.Target = t.isTag, t.name
			} else {
				u.IsTag, u.Target = pickTarget()
			}
			switch r := g.Draw(10); {
			case r == 0:
				u.Route = c03ControlRoutes[g.Draw(len(c03ControlRoutes))]
				u.Control = true
			case r <= 3:
				u.Route = c03FileRoutes[g.Draw(len(c03FileRoutes))]
			case r <= 6 && !u.IsTag:
				u.Route = c03ArgRoutes[g.Draw(len(c03ArgRoutes))]
			default:
				u.Route = c03BodyRoutes[g.Draw(len(c03BodyRoutes))]
			}
			if u.IsTag && (u.Target == "block") && (u.Route == "block-body" || u.Route == "macro-body") {
				u.Route = "top"
			}
			if !u.IsTag && u.Target == "random" && u.Route == "arg-lazy-name" {
				u.Route = "top" // a random file name would make the loader log differ from run to run
			}
			if u.IsTag && u.Target == "extends" && !u.Control {
				u.Route = "top" // extends is only legal at the root level of a template
			} else if !u.Control && g.Draw(2) == 0 {
				// nest the use more deeply
				for n := 1 + g.Draw(3); n > 0; n-- {
					wr := c03BodyRoutes[1+g.Draw(len(c03BodyRoutes)-1)]
					if wr == "block-body" || (u.IsTag && u.Target == "block" && wr == "macro-body") {
						continue // block names must stay unique
					}
					u.Wraps = append(u.Wraps, wr)
				}
			}
			if !u.IsTag && g.Draw(2) == 1 {
				u.Operand = c03Operands[g.Draw(len(c03Operands))]
			}
			op.Use = u
			// identical uses share their files (also across sets): "u<hash>/..."
			uh := newHasher()
			uh.str(fmt.Sprintf("%v|%s|%s|%v|%v|%s", u.IsTag, u.Target, u.Route, u.Wraps, u.Control, u.Operand))
			op.Dir = fmt.Sprintf("u%x", uint64(uh)&0xffffff)
			c03Build(&op, op.Dir, sp.Files)
			if _, has := sp.OnDisk[op.Dir]; !has {
				sp.OnDisk[op.Dir] = g.Draw(sp.NLoad)
			}
			if (op.Via == "FromFile" || op.Via == "FromCache" || op.Via == "RenderTemplateFile") && f.Draw(5) == 4 {
				op.Fault = true
			}
			creates = append(creates, i)
		}
		sp.Ops = append(sp.Ops, op)
	}
	// the first creations of a set may be issued by several goroutines at once (the bans
	// were set up before): mark the leading run of fault-free creations on one set
	if g.Draw(2) == 0 {
		first := -1
		for i, op := range sp.Ops {
			if op.Kind == "create" {
				first = i
				break
			}
		}
		if first >= 0 {
			n := 0
			for i := first; i < len(sp.Ops) && n < 3; i++ {
				op := &sp.Ops[i]
				if op.Kind != "create" {
					break
				}
				// make the following creations part of the group: same set, no loader fault, a From* entry
				op.Set = sp.Ops[first].Set
				op.Fault = false
				if strings.HasPrefix(op.Via, "Render") {
					op.Via = "FromFile"
				}
				op.Conc = 1
				n++
			}
			if n < 2 {
				for i := range sp.Ops {
					sp.Ops[i].Conc = 0
				}
			}
			for i := range sp.Ops {
				if sp.Ops[i].Kind == "exec" {
					sp.Ops[i].Set = sp.Ops[sp.Ops[i].ExecOf].Set // a template is executed in the set that created it
				}
			}
		}
	}
	return sp
}

// ---- execution of one op on one side --------------------------------------------------------

type c03Res struct {
	BanErr     string   `json:"ban_err,omitempty"`
	Created    bool     `json:"created"`
	CreateErr  string   `json:"create_err,omitempty"`
	Panic      string   `json:"panic,omitempty"`
	PanicIsErr bool     `json:"panic_is_error,omitempty"`
	ExecErr    string   `json:"exec_err,omitempty"`
	Out        string   `json:"out,omitempty"`
	Gets       []string `json:"gets,omitempty"`
}

func (r *c03Res) failed() bool { return !r.Created || r.ExecErr != "" || r.Panic != "" }

type c03Side struct {
	w    *World
	sets []*pongo2.TemplateSet
	tpls map[int]*pongo2.Template
}

func c03Ctx(w *World, dir string) pongo2.Context {
	c := w.BuildCtx(CtxDesc{Variant: 0})
	c["lzname"] = dir + "/inc.tpl"
	c["idf"] = func(x *pongo2.Value) *pongo2.Value { return x }
	return c
}

func (s *c03Side) do(i int, op c03Op, withBans bool) (r *c03Res) {
	r = &c03Res{}
	old := SetCurWorld(s.w)
	defer SetCurWorld(old)
	set := s.sets[op.Set]
	nGets := len(s.w.Gets)
	defer func() {
		for _, g := range s.w.Gets[nGets:] {
			r.Gets = append(r.Gets, g.Path)
		}
	}()
	defer func() {
		if p := recover(); p != nil {
			r.Panic = fmt.Sprintf("%v", p)
			if _, ok := p.(error); ok {
				r.PanicIsErr = true
			}
			r.Created = false
		}
	}()
	dir := op.Dir
	switch op.Kind {
	case "bantag":
		if withBans {
			r.BanErr = errStr(set.BanTag(op.Target))
		}
	case "banfilter":
		if withBans {
			r.BanErr = errStr(set.BanFilter(op.Target))
		}
	case "cleancache":
		set.CleanCache("no/such/name.tpl")
	case "cleancache-all":
		set.CleanCache()
	case "replace-tag":
		if withBans { // the registry is global: once per op, not once per side
			// (a new generation of the implementation: templates compiled from now on use it, in
			// every set)
			r.BanErr = errStr(pongo2.ReplaceTag(op.Target, probeTagParserGen(op.Target, i+1)))
		}
	case "replace-filter":
		if withBans {
			r.BanErr = errStr(pongo2.ReplaceFilter(op.Target, probeFilterFn(op.Target)))
		}
	case "new-options":
		// the caller replaces the set's Options value as a whole (an exported field)
		set.Options = &pongo2.Options{}
	case "exec":
		tpl := s.tpls[op.ExecOf]
		if tpl == nil {
			return r
		}
		r.Created = true
		out, err := tpl.Execute(c03Ctx(s.w, op.Dir))
		r.Out, r.ExecErr = out, errStr(err)
	case "create":
		if CurrentTask() == nil {
			s.w.Plan = nil
			s.w.active = map[int]int{}
		}
		if op.Fault {
			// (every loader of the stack fails to open the file during this op: with a shadow copy
			// behind the second loader a single failure would legitimately fall through to it)
			s.w.Plan = []FaultSpec{{Site: KGet, Task: -1, Op: -1, Occ: 0, Fault: FGetEIO, Match: op.MainName, Disk: -1, Repeat: -1}}
			s.w.pathCounts = map[string]int{}
		}
		ctx := c03Ctx(s.w, dir)
		var tpl *pongo2.Template
		var err error
		switch op.Via {
		case "FromString":
			tpl, err = set.FromString(op.Main)
		case "FromBytes":
			buf := []byte(op.Main)
			tpl, err = set.FromBytes(buf)
			if withBans {
				reuseBuffer(buf) // (not on the twin's side: an engine that keeps the caller's memory diverges)
			}
		case "FromFile":
			tpl, err = set.FromFile(op.MainName)
		case "FromCache":
			tpl, err = set.FromCache(op.MainName)
		case "RenderTemplateString":
			r.Created = true
			r.Out, err = set.RenderTemplateString(op.Main, ctx)
			r.ExecErr = errStr(err)
			return r
		case "RenderTemplateBytes":
			r.Created = true
			r.Out, err = set.RenderTemplateBytes([]byte(op.Main), ctx)
			r.ExecErr = errStr(err)
			return r
		case "RenderTemplateFile":
			r.Created = true
			r.Out, err = set.RenderTemplateFile(op.MainName, ctx)
			r.ExecErr = errStr(err)
			return r
		}
		if err != nil {
			r.CreateErr = err.Error()
			return r
		}
		r.Created = true
		s.tpls[i] = tpl
		out, err := tpl.Execute(ctx)
		r.Out, r.ExecErr = out, errStr(err)
	}
	return r
}

// c03MustWork: uses whose success the harness can vouch for without looking at the engine.
func c03MustWork(u *c03Use, op *c03Op) bool {
	if u == nil || u.Control || op.Fault || !strings.HasPrefix(u.Target, "probe_") {
		return false
	}
	if u.Operand != "" && u.Operand != "s1" {
		return false
	}
	for _, ar := range c03ArgRoutes {
		if ar == u.Route {
			return false
		}
	}
	return true
}

// c03TargetBanned: is the op's own target (the thing the probes count) banned in this set?
func c03TargetBanned(tags, filts map[string]bool, u *c03Use) bool {
	if u == nil || u.Control {
		return false
	}
	if u.IsTag {
		return tags[u.Target]
	}
	return filts[u.Target]
}

func inSet(m map[string]bool, ks []string) string {
	for _, k := range ks {
		if m[k] {
			return k
		}
	}
	return ""
}

func (c03Checker) Run(tp *Tapes, opt RunOpt) *Outcome {
	out := &Outcome{Faults: map[string]int{}}
	sp := c03Gen(tp)
	// every run starts from generation 0 of the probe tags (an earlier run may have replaced them)
	for _, n := range []string{"probe_t0", "probe_t1"} {
		pongo2.ReplaceTag(n, probeTagParser(n))
	}
	disks := []*DiskSpec{{Files: map[string][]FileVer{}}, {Files: map[string][]FileVer{}}}
	for _, k := range sortedKeys(sp.Files) {
		d := 0
		if i := strings.Index(k, "/"); i > 0 {
			d = sp.OnDisk[k[:i]]
		}
		disks[d].Files[k] = []FileVer{{Content: sp.Files[k]}}
		if d == 0 && sp.NLoad == 2 {
			// the later loader holds a harmless file of the same name: never visible, the first
			// loader that has a name wins - also when what it has does not compile
			disks[1].Files[k] = []FileVer{{Content: "(shadow copy behind the second loader)"}}
		}
	}
	mk := func() *c03Side {
		w := NewWorld(disks)
		s := &c03Side{w: w, tpls: map[int]*pongo2.Template{}}
		mkStack := func(id int) []pongo2.TemplateLoader {
			var ls []pongo2.TemplateLoader
			for d := 0; d < sp.NLoad; d++ {
				ls = append(ls, w.MakeLoader(id*4+d, LoaderSpec{Kind: sp.Loader, Disk: d}))
			}
			return ls
		}
		shared := mkStack(0)
		for i := 0; i < sp.NSets; i++ {
			l := shared
			if !sp.Shared {
				l = mkStack(i)
			}
			s.sets = append(s.sets, pongo2.NewSet(fmt.Sprintf("S%d", i), l...))
		}
		return s
	}
	sys, twin := mk(), mk()
	if sp.NSets > 1 {
		out.probe("two_sets")
	}
	ph := newHasher()
	ph.str(fmt.Sprintf("%d%s%v%d%v", sp.NSets, sp.Loader, sp.Shared, sp.NLoad, sp.OnDisk))
	for _, op := range sp.Ops {
		ph.str(fmt.Sprintf("%s|%d|%s|%s|%v|%d|%s", op.Kind, op.Set, op.Target, op.Via, op.Fault, op.ExecOf, op.Main))
	}
	out.ProgHash = uint64(ph)
	registeredTags, registeredFilters := map[string]bool{}, map[string]bool{}
	for _, t := range pongo2.VerifRegisteredTags() {
		registeredTags[t] = true
	}
	for _, f := range pongo2.VerifRegisteredFilters() {
		registeredFilters[f] = true
	}

	type model struct {
		tags, filts map[string]bool
		frozen      int // 0 no, 1 maybe, 2 yes
	}
	models := make([]*model, sp.NSets)
	for i := range models {
		models[i] = &model{tags: map[string]bool{}, filts: map[string]bool{}}
	}
	// lazily reachable uses per created template (for later exec ops)
	nontrivial := false
	var concRes map[int]*c03Res
	concTrace := uint64(0)
	var trace []map[string]any
	viol := func(class, key, detail string, exp, obs any) {
		out.addViolation(class, key, detail, exp, map[string]any{"spec": sp, "trace": trace, "observed": obs})
	}

opsLoop:
	for i, op := range sp.Ops {
		m := models[op.Set]
		out.Execs++
		switch op.Kind {
		case "bantag", "banfilter":
			isTag := op.Kind == "bantag"
			res := sys.do(i, op, true)
			twin.do(i, op, false)
			out.dig("ban", res.BanErr)
			trace = append(trace, map[string]any{"op": i, "kind": op.Kind, "set": op.Set, "target": op.Target, "result": res.BanErr, "frozen_before": m.frozen})
			bset, reg := m.filts, registeredFilters
			if isTag {
				bset, reg = m.tags, registeredTags
			}
			accepted := res.BanErr == ""
			route := "tag"
			if !isTag {
				route = "filter"
			}
			switch {
			case m.frozen == 2:
				out.probe("ban_refused_frozen")
				nontrivial = true
				if accepted {
					viol("late_ban_accepted", route, fmt.Sprintf("op %d: %s(%q) was accepted although the set had already created a template", i, op.Kind, op.Target), "error", "nil")
				}
				// must change nothing: the model stays as it is; later uses verify it
			case m.frozen == 0 && reg[op.Target] && !bset[op.Target]:
				if !accepted {
					viol("early_ban_refused", route, fmt.Sprintf("op %d: %s(%q) was refused although the set has not created any template yet", i, op.Kind, op.Target), "nil", res.BanErr)
				} else {
					bset[op.Target] = true
					out.probe("ban_accepted")
				}
			default:
				// statement silent: either answer, but binding
				switch {
				case !reg[op.Target]:
					out.probe("ban_unknown")
				case bset[op.Target]:
					out.probe("ban_duplicate")
				default:
					out.probe("ban_after_failed_creation")
				}
				if accepted && reg[op.Target] {
					bset[op.Target] = true
				}
			}
		case "cleancache", "cleancache-all", "replace-tag", "replace-filter", "new-options":
			res := sys.do(i, op, true)
			twin.do(i, op, false)
			out.dig(op.Kind, res.BanErr)
			out.probe("housekeeping_op")
			trace = append(trace, map[string]any{"op": i, "kind": op.Kind, "set": op.Set, "target": op.Target, "result": res.BanErr})
			if res.BanErr != "" {
				viol("housekeeping_failed", op.Kind, fmt.Sprintf("op %d: %s(%q) failed: %s", i, op.Kind, op.Target, res.BanErr), "nil", res.BanErr)
			}
			// the model is untouched: bans and the frozen flag stay exactly as they were
		case "create", "exec":
			src := op
			if op.Kind == "exec" {
				src = sp.Ops[op.ExecOf]
				out.probe("exec_of_earlier")
			}
			if op.Conc > 0 && concRes == nil {
				// run the whole group concurrently on the system side (seeded schedule)
				var group []int
				for j := i; j < len(sp.Ops) && sp.Ops[j].Conc == op.Conc; j++ {
					group = append(group, j)
				}
				concRes = map[int]*c03Res{}
				sched := NewSched(tp.Sched, sys.w)
				sched.KeepLog = opt.KeepLog
				if Instrumented {
					// creations are short: pre-empt early and often
					sched.YieldGap = []int{3, 8, 25, 80}[tp.Sched.Draw(4)]
					sched.YieldBudget = 3 + tp.Sched.Draw(4)
				}
				sched.Strat = pickStrategy(tp.Sched)
				sys.w.Sched = sched
				bodies := make([]func(*TaskCtx), len(group))
				locals := make([]any, len(group))
				slots := make([]*c03Res, len(group))
				for gi, j := range group {
					gi, j := gi, j
					bodies[gi] = func(tc *TaskCtx) {
						sys.w.OpBegin(j)
						slots[gi] = sys.do(j, sp.Ops[j], true)
						sys.w.OpEnd(j)
					}
				}
				sched.RunPhase(bodies, locals, 0)
				sys.w.Sched = nil
				out.Steps += sched.Steps
				out.Log = append(out.Log, sched.Log...)
				if sched.Deadlock {
					viol("deadlock", "concurrent creation", "concurrent template creations on one set cannot make progress", nil, nil)
					break opsLoop
				}
				if sched.Overrun {
					out.HarnessErr = "step budget exceeded"
					break opsLoop
				}
				for gi, j := range group {
					concRes[j] = slots[gi]
				}
				out.probe("concurrent_first_creations")
				th0 := newHasher()
				th0.u64(uint64(sched.Trace))
				concTrace = uint64(th0)
			}
			before, after := 0, 0
			var res *c03Res
			if pre, ok := concRes[i]; ok && pre != nil {
				res = pre // (probe counters are not attributable inside a concurrent group)
			} else {
				if src.Use != nil {
					before = probeSnapshot(src.Use.Target)
				}
				res = sys.do(i, op, true)
				if src.Use != nil {
					after = probeSnapshot(src.Use.Target)
				}
			}
			tres := twin.do(i, op, false)
			for k, v := range sys.w.Fired {
				out.Faults[k] += v
			}
			sys.w.Fired = map[string]int{}
			twin.w.Fired = map[string]int{}
			bannedMain := inSet(m.tags, src.MainTags)
			if bannedMain == "" {
				bannedMain = inSet(m.filts, src.MainFilts)
			}
			bannedLazy := inSet(m.tags, src.LazyTags)
			if bannedLazy == "" {
				bannedLazy = inSet(m.filts, src.LazyFilts)
			}
			if src.Use.Target == "random" && !src.Use.Control {
				// documented to depend on randomness: keep its output out of the log and the comparison
				rs := []*c03Res{tres}
				if bannedMain == "" && bannedLazy == "" {
					rs = append(rs, res)
				}
				for _, r := range rs {
					if r.Created {
						r.Out, r.ExecErr, r.Gets = "(random)", "", nil
					}
				}
			}
			out.dig(fmt.Sprintf("%v|%s|%s|%s|%s|%v", res.Created, res.CreateErr, res.ExecErr, res.Out, res.Panic, res.Gets))
			trace = append(trace, map[string]any{"op": i, "kind": op.Kind, "set": op.Set, "via": op.Via, "use": src.Use, "main": src.Main, "fault": op.Fault,
				"banned_in_main": bannedMain, "banned_in_lazy": bannedLazy, "result": res, "twin": tres})
			routeKey := src.Use.Route
			kindKey := "filter"
			if src.Use.IsTag {
				kindKey = "tag"
			}
			key := routeKey + " " + kindKey
			switch routeKey {
			case "filtertag-chain", "filtertag-chain2":
				out.probe("route_filter_tag_chain")
			case "macro-default":
				out.probe("route_macro_default")
			}
			if strings.HasPrefix(routeKey, "arg-") {
				out.probe("route_tag_argument")
			}
			for _, fr := range c03FileRoutes {
				if fr == routeKey {
					out.probe("route_file_composition")
				}
			}
			if op.Kind == "create" {
				if res.Panic != "" && !(strings.HasPrefix(op.Via, "Render") && res.PanicIsErr) {
					viol("panic", key, fmt.Sprintf("op %d: %s panicked: %s", i, op.Via, res.Panic), nil, res)
				}
				if op.Fault && !res.Created && res.Panic == "" || op.Fault && res.Panic != "" {
					out.probe("creation_failed_by_loader_fault")
				}
			}
			switch {
			case op.Kind == "exec" && sys.tpls[op.ExecOf] == nil:
				// nothing to execute
			case bannedMain != "" && op.Kind == "create":
				nontrivial = true
				if res.Created && res.Panic == "" && !strings.HasPrefix(op.Via, "Render") {
					viol("banned_compiled", key, fmt.Sprintf("op %d: a source using the banned %q compiled", i, bannedMain), "compilation error", res)
				} else if strings.HasPrefix(op.Via, "Render") && res.Panic == "" && res.ExecErr == "" {
					viol("banned_compiled", key, fmt.Sprintf("op %d: %s rendered a source using the banned %q", i, op.Via, bannedMain), "compilation error", res)
				} else {
					out.probe("banned_use_rejected")
				}
				if after != before && c03TargetBanned(m.tags, m.filts, src.Use) {
					viol("banned_ran", key, fmt.Sprintf("op %d: the banned %q was invoked (probe counter moved by %d)", i, src.Use.Target, after-before), 0, after-before)
				}
				// a banned composition tag must not even fetch its file
				for _, bt := range []string{"include", "extends", "import", "ssi"} {
					if !m.tags[bt] {
						continue
					}
					for _, fp := range src.Forbidden[bt] {
						for _, gp := range res.Gets {
							if gp == fp {
								viol("banned_fetched", key, fmt.Sprintf("op %d: %q is referenced only through the banned tag %q and was fetched from the loader", i, gp, bt), "no fetch", res.Gets)
							}
						}
					}
				}
			case bannedLazy != "":
				nontrivial = true
				if !res.failed() {
					viol("banned_ran", key+" lazy", fmt.Sprintf("op %d: a lazily included file using the banned %q was compiled and executed", i, bannedLazy), "execution error", res)
				} else {
					out.probe("banned_lazy_rejected_at_exec")
				}
				if after != before && c03TargetBanned(m.tags, m.filts, src.Use) {
					viol("banned_ran", key+" lazy", fmt.Sprintf("op %d: the banned %q was invoked (probe counter moved)", i, src.Use.Target), 0, after-before)
				}
			default:
				// uses only unbanned things: behaves as in the ban-free twin
				sameOut := res.Out == tres.Out
				if src.Use.Target == "random" && !src.Use.Control {
					sameOut = true // documented to depend on randomness: only success/failure is compared
				}
				if res.Created != tres.Created || !sameOut || (res.ExecErr == "") != (tres.ExecErr == "") || (res.Panic == "") != (tres.Panic == "") || res.CreateErr != tres.CreateErr {
					viol("unbanned_broken", key, fmt.Sprintf("op %d: a source that uses nothing banned in its set behaves differently from the ban-free twin set", i), tres, res)
				} else if src.Use.Control {
					out.probe("control_route_ok")
				} else if !res.failed() {
					out.probe("unbanned_use_ok")
				} else if c03MustWork(src.Use, &op) && res.Panic == "" {
					// "everything not banned keeps working", in absolute terms where the harness
					// knows the answer: its own probe tag / filter, written in the plain form, in a
					// body or file route, no injected fault - the twin failing alike is no excuse
					viol("unbanned_broken", key+" (probe must work)", fmt.Sprintf("op %d: a source that only uses the unbanned %q failed (and so did the ban-free twin)", i, src.Use.Target), "success", res)
				}
			}
			if op.Kind == "create" {
				if res.Created {
					m.frozen = 2 // the set has created a template
				} else if m.frozen == 0 {
					m.frozen = 1 // only failed creations so far: "first template" can be read either way
				}
			}
		}
		if len(out.Violations) > 0 {
			break
		}
	}
	out.Steps = out.Execs
	th := newHasher()
	th.u64(out.ProgHash)
	th.u64(concTrace)
	out.TraceHash = uint64(th)
	out.NonTrivial = nontrivial
	if opt.Sample {
		out.Sample = map[string]any{"spec": sp, "trace": trace}
	}
	_ = sort.Strings
	return out
}
