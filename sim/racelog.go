package sim

import (
	"fmt"
	"os"
	"regexp"
	"strings"
)

// Race reports are written by the race runtime to $VERIF_RACELOG.<pid> (GORACE
// log_path). raceWatch remembers the file offset so that a run can be attributed
// exactly the reports it produced.
type raceWatch struct {
	path   string
	off    int64
	before int
}

func newRaceWatch() *raceWatch {
	rw := &raceWatch{before: raceErrors()}
	if p := os.Getenv("VERIF_RACELOG"); p != "" {
		rw.path = fmt.Sprintf("%s.%d", p, os.Getpid())
		if st, err := os.Stat(rw.path); err == nil {
			rw.off = st.Size()
		}
	}
	return rw
}

// delta returns the number of new race reports and their text.
func (rw *raceWatch) delta() (int, string) {
	n := raceErrors() - rw.before
	if n <= 0 {
		return 0, ""
	}
	if rw.path == "" {
		return n, ""
	}
	b, err := os.ReadFile(rw.path)
	if err != nil || int64(len(b)) < rw.off {
		return n, ""
	}
	return n, string(b[rw.off:])
}

var reFrame = regexp.MustCompile(`^\s+(\S+)\(\)$`)

// raceKeys extracts, per report, the innermost pongo2 frames of the two accesses:
// "funcA <-> funcB" (sorted), function names only so the key survives line shifts.
func raceKeys(text string) []string {
	var keys []string
	seen := map[string]bool{}
	for _, rep := range strings.Split(text, "WARNING: DATA RACE") {
		if !strings.Contains(rep, "by goroutine") {
			continue
		}
		var frames []string
		inStack := false
		found := false
		for _, ln := range strings.Split(rep, "\n") {
			t := strings.TrimSpace(ln)
			if strings.HasPrefix(t, "Write at") || strings.HasPrefix(t, "Read at") || strings.HasPrefix(t, "Previous write at") || strings.HasPrefix(t, "Previous read at") {
				inStack, found = true, false
				continue
			}
			if strings.HasPrefix(t, "Goroutine ") {
				inStack = false
				continue
			}
			if !inStack || found {
				continue
			}
			if m := reFrame.FindStringSubmatch(ln); m != nil {
				fn := m[1]
				if strings.Contains(fn, "flosch/pongo2") {
					fn = fn[strings.LastIndex(fn, "/")+1:]
					frames = append(frames, fn)
					found = true
				}
			}
		}
		for len(frames) < 2 {
			frames = append(frames, "?")
		}
		a, b := frames[0], frames[1]
		if b < a {
			a, b = b, a
		}
		k := a + " <-> " + b
		if !seen[k] {
			seen[k] = true
			keys = append(keys, k)
		}
	}
	return keys
}
