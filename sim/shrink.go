package sim

import (
	"encoding/json"
	"fmt"
	"os"
	"time"
)

// Tape-level minimisation. The three tapes are shrunk separately (schedule first,
// then faults, then workload), accepting a candidate only when the same violation
// (class, key) is still reported. Everything is a pure function of the tapes, so the
// result replays exactly.

type ShrinkStats struct {
	Evals    int `json:"evals"`
	Accepted int `json:"accepted"`
}

func hasViolation(o *Outcome, id string) bool {
	for _, v := range o.Violations {
		if v.ID() == id {
			return true
		}
	}
	return false
}

func Shrink(c Checker, tv TapeVals, id string, opt RunOpt, maxEvals int, maxTime time.Duration) (TapeVals, ShrinkStats) {
	st := ShrinkStats{}
	deadline := time.Now().Add(maxTime)
	try := func(cand TapeVals) bool {
		if st.Evals >= maxEvals || time.Now().After(deadline) {
			return false
		}
		st.Evals++
		tp := ReplayTapes(cand)
		t0 := time.Now()
		o := SafeRun(c, tp, opt)
		if d := time.Since(t0); d > 5*time.Second && os.Getenv("VERIF_PROGRESS") != "" {
			b, _ := json.Marshal(cand)
			fmt.Fprintf(os.Stderr, "PROGRESS slow shrink evaluation: %.1f s steps=%d tapes=%s\n", d.Seconds(), o.Steps, b)
		}
		if o.HarnessErr != "" || !hasViolation(o, id) {
			return false
		}
		st.Accepted++
		return true
	}
	get := func(t *TapeVals, which int) []uint32 {
		switch which {
		case 0:
			return t.Sched
		case 1:
			return t.Fault
		}
		return t.Gen
	}
	set := func(t TapeVals, which int, v []uint32) TapeVals {
		switch which {
		case 0:
			t.Sched = v
		case 1:
			t.Fault = v
		default:
			t.Gen = v
		}
		return t
	}
	cur := tv
	for pass := 0; pass < 3; pass++ {
		improved := false
		for which := 0; which < 3; which++ {
			// 1. truncate the tail (exhausted tape reads as 0 = the simplest choice)
			for {
				v := get(&cur, which)
				if len(v) == 0 {
					break
				}
				cut := false
				for _, keep := range []int{0, len(v) / 2, len(v) - len(v)/4, len(v) - 1} {
					if keep >= len(v) {
						continue
					}
					cand := set(cur, which, append([]uint32(nil), v[:keep]...))
					if try(cand) {
						cur = cand
						cut, improved = true, true
						break
					}
				}
				if !cut {
					break
				}
			}
			// 2. delete chunks
			for _, sz := range []int{8, 4, 2, 1} {
				v := get(&cur, which)
				for i := 0; i+sz <= len(v); {
					nv := append(append([]uint32(nil), v[:i]...), v[i+sz:]...)
					cand := set(cur, which, nv)
					if try(cand) {
						cur = cand
						v = nv
						improved = true
					} else {
						i += sz
					}
				}
			}
			// 3. zero, then halve individual values
			v := append([]uint32(nil), get(&cur, which)...)
			for i := range v {
				if v[i] == 0 {
					continue
				}
				old := v[i]
				for _, nvv := range []uint32{0, old / 2, old - 1} {
					if nvv >= old {
						continue
					}
					v[i] = nvv
					cand := set(cur, which, append([]uint32(nil), v...))
					if try(cand) {
						cur = cand
						improved = true
						break
					}
					v[i] = old
				}
			}
		}
		if !improved || st.Evals >= maxEvals || time.Now().After(deadline) {
			break
		}
	}
	return cur, st
}
