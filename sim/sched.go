package sim

import (
	"encoding/binary"
	"fmt"
	"runtime"
	"strings"
	"sync"
	"sync/atomic"
	"syscall"
	"time"
	"unsafe"
)

// Cooperative, seeded scheduler for caller goroutines ("tasks").
//
// Exactly one task runs at a time. A task parks at every seam by writing a message
// to a pipe and blocking in a read on its own wake pipe. The pipe traffic uses raw
// syscall.Syscall(SYS_READ/SYS_WRITE) on purpose: unlike channels, mutexes, atomics
// or syscall.Read/Write, these create no happens-before edge for Go's race runtime.
// Tasks are therefore physically serialised (one seed = one execution) but logically
// concurrent: a -race build still reports every pair of accesses that pongo2 itself
// leaves unsynchronised, from one replayable schedule.
//
// All mutable harness state lives in the scheduler goroutine (the goroutine that
// calls RunPhase). Tasks write only task-local records, read after the join.

type Kind uint8

const (
	KStart Kind = iota
	KOpBegin
	KOpEnd
	KGet
	KRead
	KWrite
	KCallback
	KLock
	KLockWait
	KNote // logged, does not park
	KDone
	KEnv     // pseudo: environment event (never sent by a task)
	KYield   // forced pre-emption between two statements (instrumented build only)
	KBlocked // pseudo: the running task's goroutine sits in a Go synchronisation primitive (never sent by a task)
)

var kindNames = [...]string{"start", "op-begin", "op-end", "get", "read", "write", "callback", "lock", "lockwait", "note", "done", "env", "yield", "blocked"}

func (k Kind) String() string { return kindNames[k] }

type Msg struct {
	Task int
	Kind Kind
	A    uint32
	B    uint32
	S    string
}

type Reply struct {
	D uint32 // decision (fault kind), 0 = proceed normally
	A uint32
	B uint32
}

// Env is implemented by the world; every method runs on the scheduler goroutine.
type Env interface {
	// Resume is called when the scheduler lets a task continue from its pending
	// message; the reply tells the seam what to do (serve version, fail, ...).
	Resume(seq uint64, m *Msg) Reply
	// Note records a non-parking message.
	Note(seq uint64, m *Msg)
	// EnvEvent fires environment event i.
	EnvEvent(seq uint64, i int)
}

const maxTasks = 8

// a phase that burns more processor time than this is abandoned like one that exceeds the
// step budget (processor time of this one-P worker process, not wall-clock time: a loaded
// machine must not turn a slow run into a harness error)
const maxRunCPU = 90 * time.Second

func cpuTime() time.Duration {
	var ru syscall.Rusage
	if err := syscall.Getrusage(syscall.RUSAGE_SELF, &ru); err != nil {
		return 0
	}
	return time.Duration(ru.Utime.Nano() + ru.Stime.Nano())
}

var (
	slotGid [maxTasks]atomic.Uint64
	slotTC  [maxTasks]*TaskCtx
)

type TaskCtx struct {
	ID      int
	s       *Sched
	down    [2]int
	Local   any // task-local record, read by the scheduler goroutine after the join
	aborted bool
	Panic   string // panic escaping the task body
	// forced pre-emption (instrumented build): statements executed since the last
	// yield and the count at which the next one is due (0: none)
	yieldCount uint32
	yieldAt    uint32
	noYield    int // > 0: inside a region that must not be pre-empted (sync.Once.Do)
	// hot points (statements performing atomic operations): pre-empted on their own, much
	// shorter countdown
	hotCount uint32
	hotAt    uint32
}

type Strategy struct {
	Kind  int // 0 uniform, 1 sticky, 2 pct
	Stick int // sticky: stay with prob (Stick-1)/Stick
	Depth int // pct: number of priority change points
}

type Sched struct {
	tape     *Tape
	env      Env
	up       [2]int
	tasks    []*taskState
	seq      uint64
	Steps    int
	MaxSteps int
	Strat    Strategy
	cur      int
	epoch    uint64
	prio     []int
	changeAt []int
	envLeft  int
	envNext  int

	// forced pre-emption: mean gap (in statements) between forced yields; 0 = off.
	// Each task gets at most YieldBudget of them per phase.
	YieldGap    int
	YieldBudget int
	yieldsLeft  []int
	hotLeft     []int
	Yields      int

	Trace      hasher // hash of (task,kind) sequence: the interleaving
	Preempts   int    // switches away from a task that was still eligible
	LockBlocks int    // failed TryLock parks
	Deadlock   bool
	Overrun    bool
	Blocks     int           // times a task was found blocked in an unannounced synchronisation primitive
	leaked     bool          // tasks blocked for good could not be joined
	began      time.Duration // processor time of the process when the phase began
	Log        []string      // optional full event log
	KeepLog    bool
}

type taskState struct {
	tc      *TaskCtx
	pending *Msg
	done    bool
	waitEp  uint64
	// blocked: the task's goroutine waits in a channel operation, sync.Cond, WaitGroup,
	// or a lock nobody announced - something only another task's progress can end. The
	// scheduler treats it as parked at an unknown site; it comes back by itself.
	blocked bool
}

func curGoid() uint64 {
	var buf [64]byte
	n := runtime.Stack(buf[:], false)
	// "goroutine 123 ["
	var id uint64
	for i := len("goroutine "); i < n; i++ {
		c := buf[i]
		if c < '0' || c > '9' {
			break
		}
		id = id*10 + uint64(c-'0')
	}
	return id
}

// CurrentTask returns the TaskCtx of the calling goroutine, or nil when the caller
// is not a task (set-up code, single-task checkers, reference runs).
//
// Exactly one task executes at any time and the scheduler publishes it in `running`
// before waking it, so the common case is one atomic load. (The atomic store/load pair
// only orders the scheduler goroutine before the task it wakes; the scheduler never
// acquires anything from a task, so no happens-before edge between two tasks results.)
// Only while a run is being torn down after a deadlock - tasks then unwind in
// parallel - is the goroutine id consulted.
func CurrentTask() *TaskCtx {
	if tearingDown.Load() {
		if activeTasks.Load() == 0 {
			return nil
		}
		g := curGoid()
		n := int(activeTasks.Load())
		for i := 0; i < n; i++ {
			if slotGid[i].Load() == g {
				return slotTC[i]
			}
		}
		return nil
	}
	return running.Load()
}

var running atomic.Pointer[TaskCtx]
var tearingDown atomic.Bool

var activeTasks atomic.Int32

func rawWrite(fd int, p []byte) {
	for len(p) > 0 {
		n, _, e := syscall.Syscall(syscall.SYS_WRITE, uintptr(fd), uintptr(unsafe.Pointer(&p[0])), uintptr(len(p)))
		if e == syscall.EINTR {
			continue
		}
		if e != 0 {
			panic(fmt.Sprintf("sim: raw write: %v", e))
		}
		p = p[n:]
	}
}

func rawRead(fd int, p []byte) bool {
	for len(p) > 0 {
		n, _, e := syscall.Syscall(syscall.SYS_READ, uintptr(fd), uintptr(unsafe.Pointer(&p[0])), uintptr(len(p)))
		if e == syscall.EINTR {
			continue
		}
		if e != 0 {
			panic(fmt.Sprintf("sim: raw read: %v", e))
		}
		if n == 0 {
			return false // write end closed: the run was aborted
		}
		p = p[n:]
	}
	return true
}

const hdrLen = 16

func (tc *TaskCtx) send(k Kind, a, b uint32, s string) {
	if len(s) > 3000 {
		s = s[:3000]
	}
	buf := make([]byte, hdrLen+len(s))
	buf[0] = byte(tc.ID)
	buf[1] = byte(k)
	binary.LittleEndian.PutUint16(buf[2:], uint16(len(s)))
	binary.LittleEndian.PutUint32(buf[4:], a)
	binary.LittleEndian.PutUint32(buf[8:], b)
	copy(buf[hdrLen:], s)
	rawWrite(tc.s.up[1], buf) // <= PIPE_BUF: atomic
}

// Park hands control to the scheduler and blocks until this task is picked again.
func (tc *TaskCtx) Park(k Kind, a, b uint32, s string) Reply {
	if tc.aborted {
		return Reply{}
	}
	tc.send(k, a, b, s)
	var rb [12]byte
	if !rawRead(tc.down[0], rb[:]) {
		// the scheduler gave up on this run (deadlock or step budget): unwind this
		// goroutine, running the engine's deferred unlocks on the way out.
		tc.aborted = true
		runtime.Goexit()
	}
	return Reply{D: binary.LittleEndian.Uint32(rb[0:]), A: binary.LittleEndian.Uint32(rb[4:]), B: binary.LittleEndian.Uint32(rb[8:])}
}

// YieldPoint is called between any two statements of the engine (instrumented build).
// It parks only when the scheduler has scheduled a forced pre-emption for this task.
func (tc *TaskCtx) YieldPoint() {
	if tc.yieldAt == 0 || tc.aborted || tc.noYield > 0 {
		return
	}
	tc.yieldCount++
	if tc.yieldCount < tc.yieldAt {
		return
	}
	tc.yieldCount = 0
	rep := tc.Park(KYield, 0, 0, "")
	tc.yieldAt, tc.hotAt = rep.A, rep.B
}

// HotPoint is called before a statement of the engine that performs an atomic operation
// (instrumented build). Like YieldPoint, with a countdown of its own over hot points only.
func (tc *TaskCtx) HotPoint() {
	if tc.aborted || tc.noYield > 0 {
		return
	}
	if tc.hotAt != 0 {
		tc.hotCount++
		if tc.hotCount >= tc.hotAt {
			tc.hotCount = 0
			rep := tc.Park(KYield, 1, 0, "")
			tc.yieldAt, tc.hotAt = rep.A, rep.B
			return
		}
	}
	// a hot point is a statement like any other for the ordinary countdown
	if tc.yieldAt != 0 {
		tc.yieldCount++
		if tc.yieldCount >= tc.yieldAt {
			tc.yieldCount = 0
			rep := tc.Park(KYield, 0, 0, "")
			tc.yieldAt, tc.hotAt = rep.A, rep.B
		}
	}
}

// Note logs an event with the scheduler without yielding.
func (tc *TaskCtx) Note(a, b uint32, s string) {
	if !tc.aborted {
		tc.send(KNote, a, b, s)
	}
}

func (s *Sched) recv() *Msg {
	var hb [hdrLen]byte
	if !rawRead(s.up[0], hb[:]) {
		panic("sim: scheduler pipe closed")
	}
	m := &Msg{Task: int(hb[0]), Kind: Kind(hb[1]), A: binary.LittleEndian.Uint32(hb[4:]), B: binary.LittleEndian.Uint32(hb[8:])}
	l := int(binary.LittleEndian.Uint16(hb[2:]))
	if l > 0 {
		pb := make([]byte, l)
		if !rawRead(s.up[0], pb) {
			panic("sim: scheduler pipe closed")
		}
		m.S = string(pb)
	}
	return m
}

// pollReadable waits up to ms milliseconds for data on fd (raw syscall: invisible to the
// race runtime like the rest of the transport).
func pollReadable(fd int, ms int) bool {
	var pfd struct {
		fd      int32
		events  int16
		revents int16
	}
	pfd.fd, pfd.events = int32(fd), 1 // POLLIN
	for {
		n, _, e := syscall.Syscall(syscall.SYS_POLL, uintptr(unsafe.Pointer(&pfd)), 1, uintptr(ms))
		if e == syscall.EINTR {
			continue
		}
		return e == 0 && n > 0
	}
}

var blockedStates = []string{"chan receive", "chan send", "select", "semacquire", "sync.Mutex.Lock", "sync.RWMutex.Lock",
	"sync.RWMutex.RLock", "sync.WaitGroup.Wait", "sync.Cond.Wait", "chan receive (nil chan)", "chan send (nil chan)", "select (no cases)"}

// goroutineBlocked reports whether goroutine gid currently waits in a Go
// synchronisation primitive (taken from the runtime's own goroutine dump). A goroutine
// that a close / send / Unlock / Signal of another goroutine has made runnable again is
// reported as not blocked: the runtime readies the waiter before that call returns.
func goroutineBlocked(gid uint64) bool {
	buf := make([]byte, 1<<18)
	var n int
	for {
		n = runtime.Stack(buf, true)
		if n < len(buf) || len(buf) >= 1<<24 {
			break
		}
		buf = make([]byte, 2*len(buf))
	}
	dump := string(buf[:n])
	marker := fmt.Sprintf("goroutine %d [", gid)
	i := strings.Index(dump, marker)
	if i < 0 {
		return false
	}
	rest := dump[i+len(marker):]
	j := strings.IndexByte(rest, ']')
	if j < 0 {
		return false
	}
	state := rest[:j]
	if k := strings.IndexByte(state, ','); k >= 0 {
		state = state[:k]
	}
	for _, b := range blockedStates {
		if state == b {
			return true
		}
	}
	return false
}

// waitMsg returns the next message on the shared pipe. When none arrives although task c
// was let run, its goroutine is inspected: if it sits in a synchronisation primitive (seen
// twice in a row), a KBlocked pseudo message is synthesised for it.
func (s *Sched) waitMsg(c int) *Msg {
	wait, seen := 2, 0
	for {
		if pollReadable(s.up[0], wait) {
			return s.recv()
		}
		if goroutineBlocked(slotGid[c].Load()) {
			seen++
			if seen >= 2 {
				return &Msg{Task: c, Kind: KBlocked}
			}
			continue
		}
		seen = 0
		if wait < 64 {
			wait *= 2
		}
	}
}

// absorb books a message from a task that had been found blocked in a synchronisation
// primitive: something the running task did has released it, and it has reached its next
// seam (or its end) by itself.
func (s *Sched) absorb(nm *Msg) {
	ot := s.tasks[nm.Task]
	if !ot.blocked {
		panic(fmt.Sprintf("sim: message from task %d, which is neither running nor blocked", nm.Task))
	}
	switch nm.Kind {
	case KNote:
		nseq := s.NextSeq()
		s.logf("%d t%d note a=%d b=%d s=%q (released)", nseq, nm.Task, nm.A, nm.B, nm.S)
		s.env.Note(nseq, nm)
	case KDone:
		ot.done, ot.blocked = true, false
		s.epoch++
		s.logf("t%d done (released)", nm.Task)
	default:
		ot.pending, ot.blocked = nm, false
		if nm.Kind == KLockWait {
			ot.waitEp = s.epoch
		}
		s.epoch++
		s.logf("t%d released, parked at %s", nm.Task, nm.Kind)
	}
}

// settle brings every task that was found blocked back to a defined state before the
// next scheduling decision: either its goroutine still sits in a synchronisation
// primitive (only another task's progress can end that), or it was released by the step
// just taken - then it runs by itself up to its next seam, and its message is awaited
// here. Afterwards every task is parked at a seam, done, or blocked; no task runs.
func (s *Sched) settle() {
	if s.Blocks == 0 {
		return
	}
	for {
		open := false
		for i, t := range s.tasks {
			if t.blocked && !t.done && !goroutineBlocked(slotGid[i].Load()) {
				open = true
			}
		}
		if !open {
			return
		}
		if pollReadable(s.up[0], 1) {
			s.absorb(s.recv())
		}
	}
}

func NewSched(tape *Tape, env Env) *Sched {
	s := &Sched{tape: tape, env: env, MaxSteps: 4000, Trace: newHasher()}
	if tape.Deep {
		s.MaxSteps = 20000
	}
	if Instrumented {
		// statement-level pre-emption (instrumented build): per run either off or a mean gap
		// of 15 / 150 / 1500 statements between forced yields, a few per task and phase
		s.YieldGap = []int{0, 15, 150, 1500}[tape.Draw(4)]
		s.YieldBudget = 2 + tape.Draw(5)
	}
	return s
}

// NextSeq hands out the next global event sequence number (scheduler goroutine only).
func (s *Sched) NextSeq() uint64 { s.seq++; return s.seq }

func (s *Sched) logf(format string, a ...any) {
	if s.KeepLog {
		s.Log = append(s.Log, fmt.Sprintf(format, a...))
	}
}

// RunPhase runs the given task bodies to completion under the seeded scheduler,
// interleaved with nEnv environment events. It returns the TaskCtxs (for their
// task-local records). Start and join use go/WaitGroup, so everything the caller did
// before RunPhase happens-before the tasks and everything the tasks did
// happens-before RunPhase returning - the same edges a real caller creates.
func (s *Sched) RunPhase(bodies []func(tc *TaskCtx), locals []any, nEnv int) []*TaskCtx {
	n := len(bodies)
	if n > maxTasks {
		panic("too many tasks")
	}
	if err := syscall.Pipe(s.up[:]); err != nil {
		panic(err)
	}
	s.tasks = make([]*taskState, n)
	tcs := make([]*TaskCtx, n)
	for i := 0; i < n; i++ {
		tc := &TaskCtx{ID: i, s: s}
		if locals != nil {
			tc.Local = locals[i]
		}
		if err := syscall.Pipe(tc.down[:]); err != nil {
			panic(err)
		}
		tcs[i] = tc
		slotTC[i] = tc
		slotGid[i].Store(0)
		s.tasks[i] = &taskState{tc: tc}
	}
	activeTasks.Store(int32(n))
	var wg sync.WaitGroup
	wg.Add(n)
	for i := 0; i < n; i++ {
		go func(tc *TaskCtx, body func(*TaskCtx)) {
			defer wg.Done()
			slotGid[tc.ID].Store(curGoid())
			rep0 := tc.Park(KStart, 0, 0, "")
			tc.yieldAt, tc.hotAt = rep0.A, rep0.B
			func() {
				defer func() {
					if r := recover(); r != nil {
						tc.Panic = fmt.Sprintf("%v\n%s", r, shortStack())
					}
				}()
				body(tc)
			}()
			if !tc.aborted {
				tc.send(KDone, 0, 0, "")
			}
		}(tcs[i], bodies[i])
	}
	// collect the n start messages (arrival order is the one thing not decided by us;
	// they are keyed by task id, so it does not matter)
	for got := 0; got < n; got++ {
		m := s.recv()
		if m.Kind != KStart {
			panic("sim: expected start message")
		}
		s.tasks[m.Task].pending = m
	}
	s.envLeft = nEnv
	s.envNext = 0
	s.cur = -1
	s.yieldsLeft = make([]int, n)
	s.hotLeft = make([]int, n)
	for i := range s.yieldsLeft {
		s.yieldsLeft[i] = s.YieldBudget
		s.hotLeft[i] = 3 * s.YieldBudget
	}
	s.initStrategy(n)
	s.began = cpuTime()
	s.loop()
	running.Store(nil)
	stuck := false
	for _, t := range s.tasks {
		if t.blocked && !t.done {
			stuck = true // blocked in a synchronisation primitive and nobody is left to release it
		}
	}
	if stuck {
		s.Deadlock = true
	}
	if s.Deadlock || s.Overrun {
		tearingDown.Store(true)
		// tasks are stuck parked: closing the write ends of their wake pipes makes the
		// blocked reads return EOF, upon which each task unwinds with Goexit.
		for _, tc := range tcs {
			syscall.Close(tc.down[1])
			tc.down[1] = -1
		}
	}
	if !stuck {
		wg.Wait()
	} else {
		// the unwinding tasks run the engine's deferred unlocks, which may or may not
		// release the blocked ones; goroutines that stay blocked are abandoned
		joined := make(chan struct{})
		go func() { wg.Wait(); close(joined) }()
		select {
		case <-joined:
			stuck = false
		case <-time.After(300 * time.Millisecond):
		}
	}
	tearingDown.Store(false)
	activeTasks.Store(0)
	if stuck {
		// (the pipes stay open on purpose: an abandoned goroutine that is released after all
		// must not write into descriptors that a later run has been given)
		s.leaked = true
		return tcs
	}
	syscall.Close(s.up[0])
	syscall.Close(s.up[1])
	for _, tc := range tcs {
		syscall.Close(tc.down[0])
		if tc.down[1] >= 0 {
			syscall.Close(tc.down[1])
		}
	}
	return tcs
}

func shortStack() string {
	buf := make([]byte, 4096)
	n := runtime.Stack(buf, false)
	return string(buf[:n])
}

func (s *Sched) initStrategy(n int) {
	s.prio = nil
	s.changeAt = nil
	if s.Strat.Kind == 2 {
		// PCT: random priority permutation (+ env as last id), d change points
		ids := make([]int, n+1)
		for i := range ids {
			ids[i] = i
		}
		for i := len(ids) - 1; i > 0; i-- {
			j := s.tape.Draw(i + 1)
			ids[i], ids[j] = ids[j], ids[i]
		}
		s.prio = make([]int, n+1)
		for rank, id := range ids {
			s.prio[id] = len(ids) - rank + 10
		}
		for d := 0; d < s.Strat.Depth; d++ {
			s.changeAt = append(s.changeAt, s.Steps+1+s.tape.Draw(60))
		}
	}
}

const envID = -1

func (s *Sched) eligible() []int {
	var el []int
	// current first, then ascending ids, env last
	add := func(i int) {
		t := s.tasks[i]
		if t.done || t.blocked || t.pending == nil {
			return
		}
		if t.pending.Kind == KLockWait && t.waitEp >= s.epoch {
			return
		}
		el = append(el, i)
	}
	if s.cur >= 0 {
		add(s.cur)
	}
	for i := range s.tasks {
		if i != s.cur {
			add(i)
		}
	}
	return el
}

func (s *Sched) allDone() bool {
	for _, t := range s.tasks {
		if !t.done {
			return false
		}
	}
	return true
}

func (s *Sched) pick(el []int) int {
	// el: eligible task ids (current first); env appended as envID when available
	cands := el
	if s.envLeft > 0 {
		cands = append(append([]int{}, el...), envID)
	}
	if len(cands) == 1 {
		return cands[0]
	}
	curElig := len(el) > 0 && el[0] == s.cur && s.cur >= 0
	switch s.Strat.Kind {
	case 1:
		if curElig {
			if s.tape.Draw(s.Strat.Stick) < s.Strat.Stick-1 {
				return s.cur
			}
			return cands[1+s.tape.Draw(len(cands)-1)]
		}
		return cands[s.tape.Draw(len(cands))]
	case 2:
		for _, at := range s.changeAt {
			if at == s.Steps && s.cur >= 0 {
				s.prio[s.cur] = 10 - len(s.changeAt) // drop below everybody
			}
		}
		best, bp := cands[0], -1<<30
		for _, c := range cands {
			idx := c
			if c == envID {
				idx = len(s.prio) - 1
			}
			if s.prio[idx] > bp {
				best, bp = c, s.prio[idx]
			}
		}
		return best
	default:
		return cands[s.tape.Draw(len(cands))]
	}
}

func (s *Sched) loop() {
	for {
		if s.allDone() {
			return
		}
		el := s.eligible()
		if len(el) == 0 {
			s.Deadlock = true
			s.logf("DEADLOCK")
			return
		}
		if s.Steps >= s.MaxSteps || (s.Steps%32 == 31 && cpuTime()-s.began > maxRunCPU) {
			// (the processor-time bound only decides when a run that is going nowhere is given
			// up as a harness error; it never enters a verdict)
			s.Overrun = true
			return
		}
		s.Steps++
		c := s.pick(el)
		if c == envID {
			seq := s.NextSeq()
			s.Trace.u64(0xE000 + uint64(s.envNext))
			s.logf("%d env %d", seq, s.envNext)
			s.env.EnvEvent(seq, s.envNext)
			s.envNext++
			s.envLeft--
			s.epoch++
			continue
		}
		if s.cur >= 0 && c != s.cur && len(el) > 0 && el[0] == s.cur {
			s.Preempts++
		}
		s.cur = c
		t := s.tasks[c]
		m := t.pending
		seq := s.NextSeq()
		s.Trace.u64(uint64(c)<<8 | uint64(m.Kind))
		rep := s.env.Resume(seq, m)
		if m.Kind == KStart || m.Kind == KYield {
			rep.A, rep.B = 0, 0
			if s.YieldGap > 0 && s.yieldsLeft[c] > 0 {
				s.yieldsLeft[c]--
				rep.A = uint32(1 + s.tape.Draw(2*s.YieldGap))
			}
			if s.YieldGap > 0 && s.hotLeft[c] > 0 {
				// pre-empt at the 1st..3rd hot point from here
				s.hotLeft[c]--
				rep.B = uint32(1 + s.tape.Draw(3))
			}
			if m.Kind == KYield {
				s.Yields++
			}
		}
		s.logf("%d t%d %s a=%d b=%d s=%q -> d=%d a=%d b=%d", seq, c, m.Kind, m.A, m.B, m.S, rep.D, rep.A, rep.B)
		t.pending = nil
		var rb [12]byte
		binary.LittleEndian.PutUint32(rb[0:], rep.D)
		binary.LittleEndian.PutUint32(rb[4:], rep.A)
		binary.LittleEndian.PutUint32(rb[8:], rep.B)
		running.Store(t.tc)
		rawWrite(t.tc.down[1], rb[:])
		// wait for the task's next parking message
		for {
			nm := s.waitMsg(c)
			if nm.Task != c {
				s.absorb(nm)
				continue
			}
			if nm.Kind == KNote {
				nseq := s.NextSeq()
				s.logf("%d t%d note a=%d b=%d s=%q", nseq, c, nm.A, nm.B, nm.S)
				s.env.Note(nseq, nm)
				continue
			}
			running.Store(nil)
			if nm.Kind == KBlocked {
				// from now on two tasks may briefly run side by side (a released task runs
				// until its next seam): identify tasks by goroutine id
				t.blocked = true
				s.Blocks++
				tearingDown.Store(true)
				s.logf("t%d blocked in a synchronisation primitive", c)
				break
			}
			if nm.Kind == KDone {
				t.done = true
				s.epoch++
				s.logf("t%d done", c)
				break
			}
			t.pending = nm
			if nm.Kind == KLockWait {
				t.waitEp = s.epoch
				s.LockBlocks++
				if o, ok := s.env.(interface{ LockWaited(task int) }); ok {
					o.LockWaited(c)
				}
			} else {
				s.epoch++
			}
			break
		}
		s.settle()
	}
}
