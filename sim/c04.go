package sim

import (
	"fmt"

	pongo2 "github.com/flosch/pongo2/v6"
)

// C04 - compile once, render many. DESIGN.md section 4 (C04).
// The crash-recovery reading: the compiled *Template is the durable state, an
// ExecutionContext is volatile, and an execution can die at any point (injected
// call-back error, failing writer, failing loader under a lazy include, rejected
// context, genuinely failing expression). After any history the long-lived template
// must behave exactly like one freshly compiled from the same sources ("restart").

type c04Exec struct {
	Ctx   int         `json:"ctx"` // index into the context pool
	Entry int         `json:"entry"`
	Plan  []FaultSpec `json:"plan,omitempty"`
	// NilCtx: execute with a nil Context. SetGlob: before this execution the caller assigns
	// set.Globals["glob"] (Globals are part of what a template renders from).
	NilCtx bool `json:"nil_context,omitempty"`
	// Rename: before this execution the caller renames a key of the (long-lived) context
	// map in place - to something that is not an identifier, or back again
	Rename bool `json:"rename_key_in_place,omitempty"`
	// EditList: before this execution the caller overwrites (or restores) elements of the long
	// list in the context, in place
	EditList bool   `json:"edit_list_in_place,omitempty"`
	SetGlob  string `json:"set_global,omitempty"`
	// OptsOn: before this execution the caller switches TrimBlocks and LStripBlocks on, on the
	// template object (they stay on): what earlier executions saw of the options must not stick
	OptsOn bool `json:"options_switched_on,omitempty"`
}

type c04Spec struct {
	Prog    *ProgSpec `json:"program"`
	Loader  string    `json:"loader"`
	Via     string    `json:"compiled_via"` // FromFile, FromCache, FromString
	Pool    []CtxDesc `json:"context_pool"`
	History []c04Exec `json:"history"`
}

type c04Checker struct{}

func init() { Register(c04Checker{}) }

func (c04Checker) ID() string { return "C04" }
func (c04Checker) ProbeNames() []string {
	return []string{"history_with_failed_execution", "failed_then_succeeded", "exec_err_fired", "writer_fault_fired", "lazy_loader_fault_fired",
		"context_rejected", "genuine_exec_error", "enumerated_single_fault", "same_context_twice", "trimblocks_on", "executeblocks"}
}
func (c04Checker) Meta() CheckerMeta {
	return CheckerMeta{
		Level: "exploration",
		Rule: "each run draws one program (shared grammar, every tag, both TrimBlocks/LStripBlocks settings), a pool of 2..4 contexts and a history e1..en (n=2..6) of (context, entry point, fault plan) executed on ONE compiled template; " +
			"each e_i is compared with the same execution on a template freshly compiled in a fresh set; then every single fault position of (program, context 0) is tried as e1 followed by a fault-free e2; " +
			"evaluations = executions on the long-lived template; non-trivial = history contains a failed execution or repeats a context; distinct = distinct (program, history incl. fault positions)",
		Real:        []string{"pongo2 package (compile once; Execute, ExecuteBytes, ExecuteWriter, ExecuteWriterUnbuffered, ExecuteBlocks; every tag/filter the generator writes)", "pongo2.FSLoader / HttpFilesystemLoader over the simulated disk"},
		Stub:        []string{"caller's io.Writer", "context call-backs (fault points)", "template files (in-memory disk)", "virtual TemplateLoader"},
		Assumptions: []string{"constructs documented to depend on clock, randomness or map order are not generated (now without fake, lorem random, random filter, unsorted map loops)", "the static half of the quantifier (all reachable writes) is not attempted"},
		QuickRuns:   10000, QuickRace: 0,
	}
}

func c04Gen(tp *Tapes) *c04Spec {
	g := tp.Gen
	sp := &c04Spec{Prog: GenProgramOpt(g, 6+g.DrawD(22, 50), true)}
	sp.Loader = []string{"fs", "virt", "http"}[g.Draw(3)]
	sp.Via = []string{"FromFile", "FromCache", "FromString", "FromBytes"}[g.Draw(4)]
	np := 2 + g.Draw(3)
	for i := 0; i < np; i++ {
		sp.Pool = append(sp.Pool, GenCtxDesc(g))
	}
	sp.Pool[0].BadKey = false
	if sp.Prog.BadGlobal {
		for i := range sp.Pool {
			sp.Pool[i].BadKey = false // (never two invalid names: which one is reported depends on map order)
		}
	}
	n := 2 + g.DrawD(5, 14)
	f := tp.Fault
	for i := 0; i < n; i++ {
		e := c04Exec{Ctx: g.Draw(np), Entry: g.Draw(5)}
		if e.Entry == EpExecuteBlocks && len(sp.Prog.Blocks) == 0 {
			e.Entry = EpExecute
		}
		if g.Draw(6) == 5 {
			e.NilCtx = true
		}
		if g.Draw(6) == 5 {
			e.SetGlob = fmt.Sprintf("G%d<&>", i)
		}
		if g.Draw(8) == 7 && !sp.Prog.BadGlobal {
			e.Rename = true
		}
		if g.Draw(6) == 5 {
			e.EditList = true
		}
		if g.Draw(5) == 4 && i > 0 {
			e.OptsOn = true
		}
		if f.Draw(3) == 2 {
			switch f.Draw(4) {
			case 0, 1:
				e.Plan = append(e.Plan, FaultSpec{Site: KCallback, Task: -1, Op: i, Occ: f.Draw(12), Fault: []uint32{FExecErr, FExecErrP2}[f.Draw(2)], Disk: -1})
			case 2:
				e.Plan = append(e.Plan, FaultSpec{Site: KWrite, Task: -1, Op: i, Occ: f.Draw(8), Fault: []uint32{FWriteEIO, FWriteShort}[f.Draw(2)], Param: uint32(f.Draw(3)), Disk: -1})
			case 3:
				e.Plan = append(e.Plan, FaultSpec{Site: KGet, Task: -1, Op: i, Occ: f.Draw(3), Fault: []uint32{FGetEIO, FReadEIO}[f.Draw(2)], Param: uint32(f.Draw(9)), Disk: -1})
			}
		}
		sp.History = append(sp.History, e)
	}
	return sp
}

// c04Side is one side of the differential: a world, a set and a way to get the template.
type c04Side struct {
	w    *World
	set  *pongo2.TemplateSet
	tpl  *pongo2.Template
	pool []pongo2.Context
}

func c04Compile(sp *c04Spec, disk []*DiskSpec, reuse bool) (*c04Side, string) {
	w := NewWorld(disk)
	old := SetCurWorld(w)
	defer SetCurWorld(old)
	s := &c04Side{w: w, set: w.NewProgSet(sp.Prog, "P", sp.Loader)}
	var err error
	switch sp.Via {
	case "FromCache":
		s.tpl, err = s.set.FromCache(sp.Prog.Main)
	case "FromString":
		s.tpl, err = s.set.FromString(sp.Prog.Files[sp.Prog.Main])
	case "FromBytes":
		buf := []byte(sp.Prog.Files[sp.Prog.Main])
		s.tpl, err = s.set.FromBytes(buf)
		if reuse {
			reuseBuffer(buf) // the long-lived side's caller reuses its buffer; the reference's does not
		}
	default:
		s.tpl, err = s.set.FromFile(sp.Prog.Main)
	}
	if err != nil {
		return nil, err.Error()
	}
	sp.Prog.ApplyTplOptions(s.tpl)
	return s, ""
}

func (s *c04Side) exec(sp *c04Spec, i int, e c04Exec, ctx pongo2.Context) *ExecResult {
	old := SetCurWorld(s.w)
	defer SetCurWorld(old)
	if e.NilCtx {
		ctx = nil
	}
	s.w.Plan = e.Plan
	s.w.active = map[int]int{}
	s.w.OpBegin(i)
	r := s.w.Exec(s.tpl, e.Entry, ctx, blockSel(sp.Prog.Blocks, i+e.Ctx))
	s.w.OpEnd(i)
	return r
}

func (c04Checker) Run(tp *Tapes, opt RunOpt) *Outcome {
	out := &Outcome{Faults: map[string]int{}}
	sp := c04Gen(tp)
	disk := progDisk(sp.Prog)
	ph := newHasher()
	for _, k := range sortedKeys(sp.Prog.Files) {
		ph.str(k)
		ph.str(sp.Prog.Files[k])
	}
	ph.str(fmt.Sprintf("%v%v%s%s", sp.Prog.TrimBlocks, sp.Prog.LStripBlocks, sp.Loader, sp.Via))
	out.ProgHash = uint64(ph)
	if sp.Prog.TrimBlocks || sp.Prog.LStripBlocks {
		out.probe("trimblocks_on")
	}

	mergeFired := func(w *World) int {
		n := 0
		for k, v := range w.Fired {
			out.Faults[k] += v
			n += v
			switch k {
			case "exec_err_at", "exec_err_p2_at":
				out.probe("exec_err_fired")
			case "write_eio_at", "write_short_at":
				out.probe("writer_fault_fired")
			case "get_eio", "read_eio_at":
				out.probe("lazy_loader_fault_fired")
			}
		}
		w.Fired = map[string]int{}
		return n
	}

	// runHistory executes hist on one long-lived template and compares every step
	// with a fresh compile. It returns false when the program had to be discarded.
	runHistory := func(hist []c04Exec, label string) bool {
		sys, cerr := c04Compile(sp, disk, true)
		if cerr != "" {
			out.Discarded = true
			out.probe("compile_failed")
			if out.Sample == nil {
				out.Sample = map[string]any{"discard_reason": cerr}
			}
			return false
		}
		// the system side reuses the same Go maps for the whole history
		for _, d := range sp.Pool {
			sys.pool = append(sys.pool, sys.w.BuildCtx(d))
		}
		hh := newHasher()
		hh.u64(out.ProgHash)
		anyFailed, failedBefore := false, false
		seenCtx := map[int]bool{}
		nontrivial := false
		curGlob := ""
		renamed := map[int]bool{}
		rename := func(c pongo2.Context, bad bool, variant int) {
			if bad {
				delete(c, "lzmissing")
				c["lz-missing"] = "nope.tpl"
			} else {
				delete(c, "lz-missing")
				c["lzmissing"] = "nope.tpl"
			}
		}
		// editList: the caller overwrites elements of a long list in place (same slice, same
		// length, the context stays valid) - or puts them back
		edited := map[int]bool{}
		optsOn := false
		editList := func(c pongo2.Context, on bool, variant int) {
			if l, ok := c["longs"].([]string); ok {
				for _, i := range []int{7, 14, 21} {
					if on {
						l[i] = "x-" + fmt.Sprint(i)
					} else {
						l[i] = longList(variant % 3)[i]
					}
				}
			}
		}
		for i, e := range hist {
			if e.Rename && !sp.Pool[e.Ctx].BadKey { // (never two invalid keys: which one is reported depends on map order)
				renamed[e.Ctx] = !renamed[e.Ctx]
				rename(sys.pool[e.Ctx], renamed[e.Ctx], sp.Pool[e.Ctx].Variant) // same map object, same length
			}
			if e.EditList {
				edited[e.Ctx] = !edited[e.Ctx]
				editList(sys.pool[e.Ctx], edited[e.Ctx], sp.Pool[e.Ctx].Variant)
			}
			if e.SetGlob != "" {
				curGlob = e.SetGlob
				sys.set.Globals["glob"] = curGlob
			}
			if e.OptsOn {
				optsOn = true
				sys.tpl.Options.TrimBlocks, sys.tpl.Options.LStripBlocks = true, true
				out.probe("options_switched_on_between_executions")
			}
			got := sys.exec(sp, i, e, sys.pool[e.Ctx])
			out.dig(got.String())
			out.Execs++
			fired := mergeFired(sys.w)
			ref, rerr := c04Compile(sp, disk, false)
			if rerr != "" {
				out.HarnessErr = "reference compile failed although the system compile succeeded: " + rerr
				return false
			}
			if curGlob != "" {
				ref.set.Globals["glob"] = curGlob
			}
			if optsOn {
				ref.tpl.Options.TrimBlocks, ref.tpl.Options.LStripBlocks = true, true
			}
			rctx := ref.w.BuildCtx(sp.Pool[e.Ctx])
			if renamed[e.Ctx] {
				rename(rctx, true, sp.Pool[e.Ctx].Variant)
			}
			if edited[e.Ctx] {
				editList(rctx, true, sp.Pool[e.Ctx].Variant)
			}
			want := ref.exec(sp, i, e, rctx)
			ref.w.Fired = map[string]int{}
			hh.u64(uint64(e.Ctx)<<8 | uint64(e.Entry))
			hh.str(fmt.Sprintf("%v|%s|%v|%v|%v", e.NilCtx, e.SetGlob, e.Rename, e.EditList, e.OptsOn))
			for _, f := range e.Plan {
				hh.u64(uint64(f.Site)<<40 | uint64(f.Fault)<<32 | uint64(f.Occ))
			}
			if want.Panic != "" && firstLine(want.Panic) == firstLine(got.Panic) {
				// input-determined panic, identical on a fresh compile: C01's matter
				out.Discarded = true
				out.probe("discarded_input_panic")
				return false
			}
			if seenCtx[e.Ctx] {
				out.probe("same_context_twice")
				nontrivial = true
			}
			seenCtx[e.Ctx] = true
			if e.Entry == EpExecuteBlocks {
				out.probe("executeblocks")
			}
			if !got.Same(want) {
				after := "after only successful executions"
				if failedBefore {
					after = "after a failed execution"
				}
				cls := "history_mismatch"
				if got.Panic != "" && want.Panic == "" {
					cls = "panic"
				}
				out.addViolation(cls, after, fmt.Sprintf("%s: execution %d of the history (%s) differs from the same execution on a freshly compiled template", label, i+1, epNames[e.Entry]),
					want.String(), map[string]any{"spec": sp, "history": hist, "step": i, "got": got.String()})
				return true
			}
			if got.Failed() {
				anyFailed, failedBefore = true, true
				nontrivial = true
				if fired == 0 {
					if sp.Pool[e.Ctx].BadKey {
						out.probe("context_rejected")
					} else {
						out.probe("genuine_exec_error")
					}
				}
			} else if failedBefore {
				out.probe("failed_then_succeeded")
			}
		}
		if anyFailed {
			out.probe("history_with_failed_execution")
		}
		if nontrivial {
			out.CaseHashes = append(out.CaseHashes, uint64(hh))
		}
		return true
	}

	if !runHistory(sp.History, "generated history") {
		out.Evals = out.Execs
		if out.Evals == 0 {
			out.Evals = 1
		}
		return out
	}

	// ---- per-program enumeration: every single fault position as e1, then a fault-free e2 ----
	if len(out.Violations) == 0 {
		probe, cerr := c04Compile(sp, disk, false)
		if cerr == "" {
			d := probe.exec(sp, 0, c04Exec{Entry: EpExecuteWriterUnbuffered}, probe.w.BuildCtx(sp.Pool[0]))
			K, J := d.Cbs, d.WCalls
			if d.Panic == "" {
				limit := 40
				for k := 0; k < K && limit > 0 && len(out.Violations) == 0; k++ {
					limit--
					ep := tp.Fault.Draw(5)
					if ep == EpExecuteBlocks && len(sp.Prog.Blocks) == 0 {
						ep = EpExecute
					}
					h := []c04Exec{{Ctx: 0, Entry: ep, Plan: []FaultSpec{{Site: KCallback, Task: -1, Op: 0, Occ: k, Fault: FExecErr, Disk: -1}}}, {Ctx: 0, Entry: EpExecute}}
					runHistory(h, "single exec fault then fault-free")
					out.probe("enumerated_single_fault")
				}
				for j := 0; j < J && limit > 0 && len(out.Violations) == 0; j++ {
					limit--
					h := []c04Exec{{Ctx: 0, Entry: EpExecuteWriterUnbuffered, Plan: []FaultSpec{{Site: KWrite, Task: -1, Op: 0, Occ: j, Fault: FWriteEIO, Disk: -1}}}, {Ctx: 0, Entry: EpExecuteWriterUnbuffered}}
					runHistory(h, "single writer fault then fault-free")
					out.probe("enumerated_single_fault")
				}
			}
		}
	}
	out.Evals = out.Execs
	out.Steps = out.Execs
	th := newHasher()
	for _, c := range out.CaseHashes {
		th.u64(c)
	}
	out.TraceHash = uint64(th)
	out.NonTrivial = len(out.CaseHashes) > 0
	if opt.Sample && out.Sample == nil {
		out.Sample = sp
	}
	return out
}
