//go:build !race

package sim

const RaceEnabled = false

func raceErrors() int { return 0 }
