package sim

import (
	"fmt"
	"os"
	"path/filepath"
	"reflect"
	"sort"
	"strings"

	pongo2 "github.com/flosch/pongo2/v6"
)

// C05 - one compiled template can be executed from many goroutines at once.
// DESIGN.md section 4 (C05). k tasks operate on shared templates and a shared set
// under the seeded scheduler; every call-back, writer call and loader call is a
// yield point, so executions interleave inside loops, includes, macros and blocks.

type c05Op struct {
	Kind  string      `json:"kind"` // "exec", "cache-exec", "string-exec", "file-exec"
	Entry int         `json:"entry"`
	Ctx   int         `json:"ctx"`
	Plan  []FaultSpec `json:"plan,omitempty"`
}

type c05Spec struct {
	Prog      *ProgSpec `json:"program"`
	Loader    string    `json:"loader"`
	Pool      []CtxDesc `json:"context_pool"`
	SharedCtx bool      `json:"shared_context_maps"`
	Tasks     [][]c05Op `json:"tasks"`
	Strat     string    `json:"strategy"`
	strat     Strategy
}

type c05Checker struct{}

func init() { Register(c05Checker{}) }

func (c05Checker) ID() string { return "C05" }
func (c05Checker) ProbeNames() []string {
	return []string{"interleaved_inside_execution", "lazy_include_concurrent", "concurrent_compile_same_set", "shared_context_map",
		"fault_in_one_task_only", "overlapping_ops", "cache_exec", "trimblocks_on"}
}
func (c05Checker) Meta() CheckerMeta {
	return CheckerMeta{
		Level: "exploration",
		Rule: "each run draws one program (shared grammar; every tag; call-backs inside bodies), compiles it once in a shared set, and lets 2..4 tasks issue 1..5 operations each " +
			"(Execute/ExecuteBytes/ExecuteWriter/ExecuteWriterUnbuffered/ExecuteBlocks on the shared template; FromCache+execute; FromFile/FromString+execute on the shared set; lazy includes compile at run time) under one seeded interleaving, optionally sharing context maps and with faults in some tasks; " +
			"non-trivial = at least one pre-emption inside an execution; distinct = distinct hash of (program, ops, (task,site) interleaving, fired faults)",
		Real:        []string{"pongo2 package (execution entry points, FromCache/FromFile/FromString, every tag/filter the generator writes)", "pongo2.FSLoader / HttpFilesystemLoader / LocalFilesystemLoader (temp directory)", "sync.Mutex", "Go race detector (happens-before)"},
		Stub:        []string{"goroutine scheduling choices (seeded cooperative scheduler, invisible to the race detector)", "caller's io.Writer", "context call-backs", "template files (in-memory disk)"},
		Assumptions: []string{"BanTag/BanFilter, Register*/Replace*, SetAutoescape and changing Options/Debug while executing are documented as set-up operations and are not interleaved", "the race detector sees only executed paths", "the static half of the quantifier is not attempted"},
		QuickRuns:   4000, QuickRace: 1200,
	}
}

func c05Gen(tp *Tapes) *c05Spec {
	g := tp.Gen
	sp := &c05Spec{Prog: GenProgram(g, 5+g.DrawD(16, 40))}
	sp.Loader = []string{"fs", "virt", "http", "fs", "virt", "localbase"}[g.Draw(6)]
	np := 1 + g.Draw(3)
	for i := 0; i < np; i++ {
		d := GenCtxDesc(g)
		d.BadKey = false
		sp.Pool = append(sp.Pool, d)
	}
	sp.SharedCtx = g.Draw(2) == 1
	sp.strat = pickStrategy(g)
	sp.Strat = sp.strat.String()
	k := 2 + g.DrawD(3, 7) // (deep: up to 8 tasks, the scheduler's maximum)
	f := tp.Fault
	for t := 0; t < k; t++ {
		n := 1 + g.DrawD(4, 8)
		var ops []c05Op
		for i := 0; i < n; i++ {
			op := c05Op{Ctx: g.Draw(np), Entry: g.Draw(5)}
			switch g.Draw(10) {
			case 9:
				// housekeeping while others execute and fetch: CleanCache(), then execute the shared
				// template (which stays valid). Only where options live on the set: a re-cached object
				// would otherwise have to be configured by whoever gets it first.
				op.Kind = "clean-exec"
				if sp.Prog.OptsOnTemplate {
					op.Kind = "exec"
				}
			case 8:
				op.Kind = "cache-missing" // FromCache of a name no loader has: must fail, and must not wedge the set
			case 5:
				op.Kind = "cache-exec"
			case 6:
				op.Kind = "string-exec"
			case 7:
				op.Kind = "file-exec"
			default:
				op.Kind = "exec"
			}
			if op.Entry == EpExecuteBlocks && len(sp.Prog.Blocks) == 0 {
				op.Entry = EpExecuteWriterUnbuffered
			}
			if f.Draw(5) == 4 {
				switch f.Draw(4) {
				case 3:
					// a loader that fails once in the middle of this operation (a lazy include at
					// run time, a compile): only for operations whose fetches do not depend on what
					// other tasks did to the cache
					if op.Kind == "exec" || op.Kind == "string-exec" || op.Kind == "file-exec" {
						op.Plan = append(op.Plan, FaultSpec{Site: KGet, Task: t, Op: i, Occ: f.Draw(3), Fault: FGetEIO, Disk: -1})
					}
				case 0, 1:
					op.Plan = append(op.Plan, FaultSpec{Site: KCallback, Task: t, Op: i, Occ: f.Draw(10), Fault: FExecErr, Disk: -1})
				case 2:
					op.Plan = append(op.Plan, FaultSpec{Site: KWrite, Task: t, Op: i, Occ: f.Draw(6), Fault: FWriteEIO, Disk: -1})
				}
			}
			ops = append(ops, op)
		}
		sp.Tasks = append(sp.Tasks, ops)
	}
	return sp
}

// dataFingerprint renders the data (non-function) part of a context so that a write
// into caller-owned values is noticed.
func dataFingerprint(ctx pongo2.Context) string {
	ks := make([]string, 0, len(ctx))
	for k := range ctx {
		ks = append(ks, k)
	}
	sort.Strings(ks)
	s := ""
	for _, k := range ks {
		v := ctx[k]
		if v != nil && reflect.TypeOf(v).Kind() == reflect.Func {
			s += k + "=func;"
			continue
		}
		if u, ok := v.(*simUser); ok {
			s += fmt.Sprintf("%s={%s %d %v next{%s %d %v}};", k, u.Name, u.Age, u.Tags, u.Next.Name, u.Next.Age, u.Next.Tags)
			continue
		}
		if m, ok := v.(map[string]any); ok {
			mk := sortedKeys(m)
			s += k + "=map["
			for _, kk := range mk {
				s += fmt.Sprintf("%s:%v ", kk, m[kk])
			}
			s += "];"
			continue
		}
		s += fmt.Sprintf("%s=%v;", k, v)
	}
	return s
}

// ownCache: the set's cache is private to this call (solo reference), so a template
// coming out of FromCache is a fresh object the caller still has to configure.
func c05DoOp(w *World, sp *c05Spec, set *pongo2.TemplateSet, shared *pongo2.Template, op c05Op, ctx pongo2.Context, ownCache bool) *ExecResult {
	tpl := shared
	var err error
	switch op.Kind {
	case "clean-exec":
		if op.Ctx%2 == 0 {
			set.CleanCache()
		} else {
			set.CleanCache(sp.Prog.Main, "inc0.tpl")
		}
	case "cache-missing":
		tpl, err = set.FromCache("nope-not-there.tpl")
	case "cache-exec":
		tpl, err = set.FromCache(sp.Prog.Main)
	case "string-exec":
		if op.Ctx%2 == 0 {
			tpl, err = set.FromString(sp.Prog.Files[sp.Prog.Main])
		} else {
			buf := []byte(sp.Prog.Files[sp.Prog.Main])
			tpl, err = set.FromBytes(buf)
			if !ownCache {
				reuseBuffer(buf) // (the solo reference's caller does not: an engine that keeps the memory diverges)
			}
		}
	case "file-exec":
		tpl, err = set.FromFile(sp.Prog.Main)
	}
	if err != nil {
		return &ExecResult{Ep: op.Entry, Entry: epNames[op.Entry], Err: "compile: " + err.Error()}
	}
	switch op.Kind {
	case "string-exec", "file-exec":
		sp.Prog.ApplyTplOptions(tpl) // a fresh, not yet shared object
	case "cache-exec":
		if ownCache {
			sp.Prog.ApplyTplOptions(tpl)
		} // else: the cached object was configured before the tasks started
	}
	return w.Exec(tpl, op.Entry, ctx, blockSel(sp.Prog.Blocks, op.Ctx+len(op.Plan)))
}

func (c05Checker) Run(tp *Tapes, opt RunOpt) *Outcome {
	out := &Outcome{}
	sp := c05Gen(tp)
	disk := progDisk(sp.Prog)
	w := NewWorld(disk)
	s := NewSched(tp.Sched, w)
	s.Strat = sp.strat
	s.KeepLog = opt.KeepLog
	w.Sched = s
	old := SetCurWorld(w)
	defer SetCurWorld(old)
	rw := newRaceWatch()

	ph := newHasher()
	for _, k := range sortedKeys(sp.Prog.Files) {
		ph.str(k)
		ph.str(sp.Prog.Files[k])
	}
	ph.str(fmt.Sprintf("%+v", sp.Tasks))
	ph.str(fmt.Sprintf("%v%v%s%v", sp.Prog.TrimBlocks, sp.Prog.LStripBlocks, sp.Loader, sp.SharedCtx))
	out.ProgHash = uint64(ph)
	if sp.Prog.TrimBlocks || sp.Prog.LStripBlocks {
		out.probe("trimblocks_on")
	}

	localRoot := ""
	if sp.Loader == "localbase" {
		// the real LocalFilesystemLoader over a real (temporary) directory
		c11TreeSeq++
		localRoot = filepath.Join(os.TempDir(), fmt.Sprintf("c05tree-%07d-%07d", os.Getpid()%10000000, c11TreeSeq%10000000))
		os.RemoveAll(localRoot)
		if err := os.MkdirAll(localRoot, 0o755); err != nil {
			out.HarnessErr = err.Error()
			return out
		}
		defer os.RemoveAll(localRoot)
		for _, k := range sortedKeys(sp.Prog.Files) {
			if err := os.WriteFile(filepath.Join(localRoot, k), []byte(sp.Prog.Files[k]), 0o644); err != nil {
				out.HarnessErr = err.Error()
				return out
			}
		}
		out.probe("local_filesystem_loader")
	}
	newSet := func(wld *World) *pongo2.TemplateSet {
		if localRoot == "" {
			return wld.NewProgSet(sp.Prog, "P", sp.Loader)
		}
		set := pongo2.NewSet("P", wld.MakeLoader(0, LoaderSpec{Kind: "localbase", BaseDir: localRoot}))
		if !sp.Prog.OptsOnTemplate {
			set.Options.TrimBlocks = sp.Prog.TrimBlocks
			set.Options.LStripBlocks = sp.Prog.LStripBlocks
		}
		set.Globals["glob"] = "G<P>"
		return set
	}
	set := newSet(w)
	// the shared template is the set's cached object, so FromCache hits from other tasks
	// hand out the very template that is being executed
	shared, err := set.FromCache(sp.Prog.Main)
	sp.Prog.ApplyTplOptions(shared)
	if err != nil {
		out.Discarded = true
		out.probe("compile_failed")
		out.Sample = map[string]any{"discard_reason": err.Error()}
		return out
	}
	// contexts: shared Go maps (the engine may only read them) or one map per op
	var sharedPool []pongo2.Context
	var before []string
	if sp.SharedCtx {
		for _, d := range sp.Pool {
			c := w.BuildCtx(d)
			sharedPool = append(sharedPool, c)
			before = append(before, dataFingerprint(c))
		}
		out.probe("shared_context_map")
	}
	globalsBefore := dataFingerprint(set.Globals)
	for t, ops := range sp.Tasks {
		for _, op := range ops {
			for _, f := range op.Plan {
				f.Task = t
				w.Plan = append(w.Plan, f)
			}
		}
	}
	bodies := make([]func(*TaskCtx), len(sp.Tasks))
	locals := make([]any, len(sp.Tasks))
	// per-op private contexts are built before the tasks start (no sharing between ops)
	private := make([][]pongo2.Context, len(sp.Tasks))
	for t, ops := range sp.Tasks {
		ops := ops
		res := make([]*ExecResult, len(ops))
		locals[t] = res
		private[t] = make([]pongo2.Context, len(ops))
		for i, op := range ops {
			if !sp.SharedCtx {
				private[t][i] = w.BuildCtx(sp.Pool[op.Ctx])
			}
		}
		t := t
		bodies[t] = func(tc *TaskCtx) {
			for i, op := range ops {
				ctx := private[t][i]
				if sp.SharedCtx {
					ctx = sharedPool[op.Ctx]
				}
				w.OpBegin(i)
				res[i] = c05DoOp(w, sp, set, shared, op, ctx, false)
				w.OpEnd(i)
			}
		}
	}
	tcs := s.RunPhase(bodies, locals, 0)
	out.Steps = s.Steps
	out.Log = s.Log
	if s.Deadlock {
		out.addViolation("deadlock", "execution", "no task can make progress", nil, map[string]any{"spec": sp})
	} else if s.Overrun {
		out.HarnessErr = "step budget exceeded"
		return out
	}
	for _, tc := range tcs {
		if tc.Panic != "" {
			out.HarnessErr = "task body panicked outside an operation: " + tc.Panic
			return out
		}
	}
	raceN, raceText := rw.delta()

	// ---- oracle A: every operation equals the same operation performed alone ------------
	if !s.Deadlock {
		for t, ops := range sp.Tasks {
			res := tcs[t].Local.([]*ExecResult)
			for i, op := range ops {
				out.Execs++
				got := res[i]
				if got == nil {
					out.HarnessErr = "missing result"
					return out
				}
				if localRoot != "" {
					out.dig(strings.ReplaceAll(got.String(), localRoot, "$ROOT"))
				} else {
					out.dig(got.String())
				}
				// fresh world: new set over the same files, fresh compile, no other task
				rwld := NewWorld(disk)
				SetCurWorld(rwld)
				for _, f := range op.Plan {
					f.Task = -1
					rwld.Plan = append(rwld.Plan, f)
				}
				rset := newSet(rwld)
				rtpl, rerr := rset.FromCache(sp.Prog.Main) // the same way the shared template was obtained
				sp.Prog.ApplyTplOptions(rtpl)
				if rerr != nil {
					out.HarnessErr = "reference compile failed: " + rerr.Error()
					SetCurWorld(w)
					return out
				}
				rwld.OpBegin(i)
				want := c05DoOp(rwld, sp, rset, rtpl, op, rwld.BuildCtx(sp.Pool[op.Ctx]), true)
				rwld.OpEnd(i)
				SetCurWorld(w)
				if want.Panic != "" && firstLine(want.Panic) == firstLine(got.Panic) {
					out.Discarded = true
					continue
				}
				if !got.Same(want) {
					cls := "solo_mismatch"
					if got.Panic != "" && want.Panic == "" {
						cls = "panic"
					}
					out.addViolation(cls, epNames[op.Entry], fmt.Sprintf("task %d op %d (%s %s) returned something else than when run alone", t, i, op.Kind, epNames[op.Entry]),
						want.String(), map[string]any{"spec": sp, "got": got.String()})
				}
				if len(op.Plan) > 0 && got.Failed() {
					out.probe("fault_in_one_task_only")
				}
				if op.Kind == "cache-exec" {
					out.probe("cache_exec")
				}
			}
		}
	}
	// ---- oracle C: caller data untouched ----------------------------------------------------
	if sp.SharedCtx {
		for i, c := range sharedPool {
			if dataFingerprint(c) != before[i] {
				out.addViolation("caller_data_mutated", "context", "a shared Context map or a value in it was modified by executions", before[i], dataFingerprint(c))
			}
		}
	}
	if dataFingerprint(set.Globals) != globalsBefore {
		out.addViolation("caller_data_mutated", "globals", "the set's Globals were modified by executions", globalsBefore, dataFingerprint(set.Globals))
	}
	// ---- oracle B: no unsynchronised sharing --------------------------------------------------
	if raceN > 0 && !s.Deadlock {
		out.RaceCount = raceN
		keys := raceKeys(raceText)
		if len(keys) == 0 {
			keys = []string{"?"}
		}
		for _, k := range keys {
			out.addViolation("race", k, "data race reported by the race detector during this run", nil, map[string]any{"spec": sp, "report": raceText})
		}
	}
	out.RaceRun = RaceEnabled

	// probes from stamps and the seam log
	c05Probes(out, sp, w)
	out.mergeWorld(w)
	th := s.Trace
	th.u64(out.ProgHash)
	for _, k := range sortedKeys(w.Fired) {
		th.str(k)
		th.u64(uint64(w.Fired[k]))
	}
	out.TraceHash = uint64(th)
	out.NonTrivial = s.Preempts > 0
	if opt.Sample && out.Sample == nil {
		out.Sample = map[string]any{"spec": sp, "steps": s.Steps, "preemptions": s.Preempts}
	}
	return out
}

func c05Probes(out *Outcome, sp *c05Spec, w *World) {
	st := w.Stamps
	for i := range st {
		for j := i + 1; j < len(st); j++ {
			a, b := st[i], st[j]
			if a.Task == b.Task || !(a.Call < b.Ret && b.Call < a.Ret) {
				continue
			}
			out.probe("overlapping_ops")
			oa, ob := sp.Tasks[a.Task][a.Op], sp.Tasks[b.Task][b.Op]
			if oa.Kind != "exec" && ob.Kind != "exec" {
				out.probe("concurrent_compile_same_set")
			}
		}
	}
	// an execution is interleaved when another task's seam event falls between two of its own
	// (approximated by: a Get at run time from two tasks with overlapping ops = concurrent lazy include)
	lazyBy := map[int]bool{}
	for _, g := range w.Gets {
		if g.Task < maxTasks && g.Op >= 0 && sp.Tasks[g.Task][g.Op].Kind == "exec" {
			lazyBy[g.Task] = true
		}
	}
	if len(lazyBy) >= 2 {
		out.probe("lazy_include_concurrent")
	}
	if w.Sched != nil && w.Sched.Preempts > 0 {
		out.probe("interleaved_inside_execution")
	}
}
