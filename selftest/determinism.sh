#!/bin/bash
# selftest/determinism.sh [count] : the full event log of <count> runs per property must be
# byte-identical across processes, GOMAXPROCS 1/4/16 and the plain/race builds.
# (C11 paths contain the per-process temp dir; they are normalised.)
count="${1:-300}"
cd "$(dirname "$0")/.." || exit 2
bin/check setup >/dev/null || exit 2
rc=0
for p in C03 C04 C05 C11 C14 C20; do
  ref=""
  for cfg in "1 plain" "4 plain" "16 plain" "16 plain" "4 race" "16 race"; do
    set -- $cfg
    bin=.build/simcheck; [ "$2" = race ] && bin=.build/simcheck-race
    case $p in C03|C05|C20) bin=.build/simcheck-i; [ "$2" = race ] && bin=.build/simcheck-i-race;; esac
    h=$(GOMAXPROCS=$1 GORACE="exitcode=0 halt_on_error=0 log_path=.build/racelog/det" VERIF_RACELOG=.build/racelog/det VERIF_SEED="${VERIF_SEED:-1}" \
        $bin trace -prop $p -seed "${VERIF_SEED:-1}" -from 0 -count "$count" 2>/dev/null | sed -E 's#/tmp/c(11|05)[a-z]*-[0-9-]*#TMP#g' | md5sum | cut -c1-16)
    [ -z "$ref" ] && ref=$h
    if [ "$h" != "$ref" ]; then echo "NONDETERMINISTIC $p: $cfg gives $h, expected $ref"; rc=1; fi
  done
  echo "$p deterministic over 6 configurations x $count runs ($ref)"
done
exit $rc
