#!/bin/bash
# selftest/determinism.sh [count] : the full event log of <count> runs per property must be
# byte-identical across processes, GOMAXPROCS 1/4/16 and the plain/race builds.
# (C11/C05 paths contain the per-process temp dir; they are normalised.)
# The six configurations of a property run side by side.
count="${1:-1000}"
cd "$(dirname "$0")/.." || exit 2
bin/check setup >/dev/null || exit 2
tmp=$(mktemp -d /tmp/det-XXXXXX); trap 'rm -rf "$tmp"' EXIT
rc=0
for p in C03 C04 C05 C11 C14 C20; do
  i=0
  for cfg in "1 plain" "4 plain" "16 plain" "16 plain" "4 race" "16 race"; do
    set -- $cfg
    bin=.build/simcheck; [ "$2" = race ] && bin=.build/simcheck-race
    case $p in C03|C05|C20) bin=.build/simcheck-i; [ "$2" = race ] && bin=.build/simcheck-i-race;; esac
    i=$((i+1))
    ( GOMAXPROCS=$1 GORACE="exitcode=0 halt_on_error=0 log_path=$tmp/racelog" VERIF_RACELOG=$tmp/racelog VERIF_SEED="${VERIF_SEED:-1}" \
        $bin trace -prop $p -seed "${VERIF_SEED:-1}" -from 0 -count "$count" 2>/dev/null | sed -E 's#/?tmp/c(11|05|20)[a-z]*-[0-9-]*#TMP#g' | md5sum | cut -c1-16 > "$tmp/$p.$i" ) &
  done
  wait
  ref=$(cat "$tmp/$p.1")
  for k in 2 3 4 5 6; do
    h=$(cat "$tmp/$p.$k")
    if [ "$h" != "$ref" ]; then echo "NONDETERMINISTIC $p: configuration $k gives $h, expected $ref"; rc=1; fi
  done
  echo "$p deterministic over 6 configurations x $count runs ($ref)"
done
exit $rc
