#!/bin/bash
# selftest/verify_seed.sh <dir-with-patch.diff+demo_test.go> : confirms in a scratch worktree that
# the patch applies, builds, keeps the suite green, and that the demo fails with it and passes without.
d="$1"
export GOFLAGS=-mod=mod GOPROXY=off GOSUMDB=off GOTOOLCHAIN=local
wt=$(mktemp -d /tmp/vseed-XXXXXX); rmdir "$wt"
git -C /repo worktree add -q "$wt" HEAD || exit 2
cleanup() { git -C /repo worktree remove --force "$wt" 2>/dev/null; rm -rf "$wt"; }
trap cleanup EXIT
cd "$wt" || exit 2
tests=$(grep -ho '^func Test[A-Za-z0-9_]*' "$d/demo_test.go" | sed 's/func //' | paste -sd'|')
git apply "$d/patch.diff" || { echo "RESULT apply=FAIL"; exit 1; }
go build ./... 2>&1 | tail -3; b=$?
go build -tags verif ./... 2>&1 | tail -3
suite=$(go test -vet=off -count=1 ./... 2>&1 | tail -1)
cp "$d/demo_test.go" zz_demo_test.go
with=$(timeout 600 go test -vet=off -count=1 -run "^($tests)\$" . 2>&1 | tail -1)
rm -f zz_demo_test.go; git checkout -q -- .; 
cp "$d/demo_test.go" zz_demo_test.go
without=$(timeout 600 go test -vet=off -count=1 -run "^($tests)\$" . 2>&1 | tail -1)
rm -f zz_demo_test.go
echo "RESULT suite_with_patch=[$suite] demo_with_patch=[$with] demo_without=[$without] tests=$tests"
