#!/bin/bash
# selftest/run_seeded.sh [id ...] : run the quick check of the seeded change's property against each seeded change
cd "$(dirname "$0")/.." || exit 2
ids="$*"; [ -z "$ids" ] && ids=$(ls seeded)
for id in $ids; do
  prop=$(python3 -c "import json;print(' '.join(json.load(open('seeded/$id/meta.json'))['checks']))" 2>/dev/null)
  [ -z "$prop" ] && prop=${id%%-*}
  selftest/mutate.sh "$PWD/seeded/$id/patch.diff" $prop 2>&1 | grep -E "^(CAUGHT|MISSED|ERROR|PATCH)" | sed "s/patch.diff/$id/" | cut -c1-230
done
