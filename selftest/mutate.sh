#!/bin/bash
# selftest/mutate.sh <patch-file> <Cxx> [<Cxx> ...]
# Applies a property-breaking patch to /repo's working tree, runs the quick check of
# the named properties, and always restores /repo. Prints CAUGHT/MISSED per property.
# Not part of the registered checks.
patch="$1"; shift
cd /repo || exit 2
if [ -n "$(git status --porcelain --untracked-files=no)" ]; then echo "/repo has uncommitted changes; refusing" >&2; exit 2; fi
restore() { git -C /repo checkout -- . ; git -C /repo clean -fdq -- . 2>/dev/null; }
trap restore EXIT
if ! git apply "$patch"; then echo "PATCH-DOES-NOT-APPLY $patch"; exit 2; fi
if [ "${MUTATE_BASELINE:-0}" = 1 ]; then
  (cd /repo && GOFLAGS=-mod=mod GOPROXY=off GOSUMDB=off GOTOOLCHAIN=local go test -vet=off -count=1 ./... 2>&1 | tail -1)
fi
for p in "$@"; do
  out=$(cd /verif && VERIF_SEED="${VERIF_SEED:-1}" bin/check "$p" quick 2>&1); code=$?
  if [ $code -eq 1 ] && echo "$out" | grep -q "^VIOLATION property=$p"; then
    echo "CAUGHT $p $(basename "$patch"): $(echo "$out" | grep -m1 -A1 '^VIOLATION' | tail -1 | cut -c1-160)"
  elif [ $code -eq 0 ]; then
    echo "MISSED $p $(basename "$patch")"
  else
    echo "ERROR($code) $p $(basename "$patch"): $(echo "$out" | tail -3 | cut -c1-300)"
  fi
done
find /verif/replays -name '*.json' -newer "$patch" -delete 2>/dev/null
exit 0
