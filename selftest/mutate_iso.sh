#!/bin/bash
# selftest/mutate_iso.sh <patch-file> <Cxx> [<Cxx> ...]
# Like mutate.sh, but never touches /repo's working tree or /verif's evidence/replays: the
# patch is applied to a scratch worktree of /repo's HEAD and the checks run from a scratch
# copy of /verif against it (VERIF_REPO). Several of these may run side by side.
# MUTATE_VERIF_REV=<commit>: use the checks as committed there instead of the working tree.
# Prints CAUGHT/MISSED/ERROR per property. Not part of the registered checks.
patch="$(readlink -f "$1")"; shift
src="$(cd "$(dirname "${BASH_SOURCE[0]}")/.." && pwd)"
export GOFLAGS=-mod=mod GOPROXY=off GOSUMDB=off GOTOOLCHAIN=local
top=$(mktemp -d /tmp/mut-XXXXXX)
cleanup() { git -C /repo worktree remove --force "$top/repo" 2>/dev/null; rm -rf "$top"; git -C /repo worktree prune; }
trap cleanup EXIT
git -C /repo worktree add -q "$top/repo" HEAD || exit 2
if ! git -C "$top/repo" apply "$patch"; then echo "PATCH-DOES-NOT-APPLY $patch"; exit 2; fi
mkdir -p "$top/verif"
# (default: the checks as committed at HEAD - an edit in progress in the working tree must not
# leak into a measurement; MUTATE_WORKTREE=1 takes the working tree instead)
[ -z "${MUTATE_VERIF_REV:-}" ] && [ -z "${MUTATE_WORKTREE:-}" ] && MUTATE_VERIF_REV=HEAD
if [ -n "${MUTATE_VERIF_REV:-}" ]; then
  # the checks as they were at a given commit of /verif (first-contact measurements)
  git -C "$src" archive "$MUTATE_VERIF_REV" -- bin sim known_findings.json MANIFEST.json | tar -x -C "$top/verif"
else
  rsync -a --exclude .git --exclude .build --exclude replays --exclude evidence --exclude seeded "$src/" "$top/verif/"
fi
for p in "$@"; do
  out=$(cd "$top/verif" && VERIF_REPO="$top/repo" VERIF_SEED="${VERIF_SEED:-1}" timeout "${MUTATE_TIMEOUT:-1500}" bin/check "$p" "${MUTATE_TIER:-quick}" 2>&1); code=$?
  if [ $code -eq 1 ] && echo "$out" | grep -q "^VIOLATION property=$p"; then
    echo "CAUGHT $p $(basename "$(dirname "$patch")"): $(echo "$out" | grep -A1 '^VIOLATION' | grep -v '^VIOLATION\|^--' | cut -c1-130 | head -3 | tr '\n' ';')"
  elif [ $code -eq 0 ]; then
    echo "MISSED $p $(basename "$(dirname "$patch")")"
  else
    echo "ERROR($code) $p $(basename "$(dirname "$patch")"): $(echo "$out" | tail -3 | cut -c1-300)"
  fi
  [ -n "${MUTATE_KEEP:-}" ] && { mkdir -p "$MUTATE_KEEP"; echo "$out" > "$MUTATE_KEEP/$(basename "$(dirname "$patch")")-$p.out"; cp "$top/verif/replays/"*.json "$MUTATE_KEEP/" 2>/dev/null; }
done
exit 0
