#!/bin/bash
# selftest/soak.sh <secs-per-check> <seed> [props...] : thorough tier of every claimed property with a given base seed.
# Used in the background (vp run) to look for false alarms on the unchanged tree.
secs="${1:-120}"; seed="${2:-1}"; shift 2
props="${*:-C03 C04 C05 C11 C14 C20}"
cd "$(dirname "$0")/.." || exit 2
[ -n "${VP_RUN_REPO:-}" ] && export VERIF_REPO="$VP_RUN_REPO"
rc=0
for p in $props; do
  VERIF_THOROUGH_SECS=$secs VERIF_SEED=$seed bin/check $p thorough 2>&1 | tail -4 | cut -c1-600 || rc=1
done
exit $rc
