#!/bin/bash
# selftest/run_seeded_iso.sh [-j N] [id ...] : every seeded change against the quick check(s) named in its
# meta.json, each in its own scratch worktree / scratch copy of /verif (mutate_iso.sh), N at a time.
cd "$(dirname "$0")/.." || exit 2
j=2; [ "$1" = -j ] && { j=$2; shift 2; }
ids="$*"; [ -z "$ids" ] && ids=$(ls seeded)
for id in $ids; do
  prop=$(python3 -c "import json;print(' '.join(json.load(open('seeded/$id/meta.json'))['checks']))" 2>/dev/null)
  [ -z "$prop" ] && prop=${id%%-*}
  echo "$id $prop"
done | xargs -P "$j" -L 1 bash -c 'selftest/mutate_iso.sh "seeded/$0/patch.diff" "${@}" 2>&1 | grep -E "^(CAUGHT|MISSED|ERROR|PATCH)" | cut -c1-260'
